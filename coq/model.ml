
(** val negb : bool -> bool **)

let negb = function
| true -> false
| false -> true

type nat =
| O
| S of nat

(** val fst : ('a1 * 'a2) -> 'a1 **)

let fst = function
| (x, _) -> x

(** val snd : ('a1 * 'a2) -> 'a2 **)

let snd = function
| (_, y) -> y

(** val length : 'a1 list -> nat **)

let rec length = function
| [] -> O
| _ :: l' -> S (length l')

(** val app : 'a1 list -> 'a1 list -> 'a1 list **)

let rec app l m =
  match l with
  | [] -> m
  | a :: l1 -> a :: (app l1 m)

type comparison =
| Eq
| Lt
| Gt

(** val compOpp : comparison -> comparison **)

let compOpp = function
| Eq -> Eq
| Lt -> Gt
| Gt -> Lt

module Coq__1 = struct
 (** val add : nat -> nat -> nat **)
 let rec add n0 m =
   match n0 with
   | O -> m
   | S p -> S (add p m)
end
include Coq__1

(** val mul : nat -> nat -> nat **)

let rec mul n0 m =
  match n0 with
  | O -> O
  | S p -> add m (mul p m)

(** val sub : nat -> nat -> nat **)

let rec sub n0 m =
  match n0 with
  | O -> n0
  | S k -> (match m with
            | O -> n0
            | S l -> sub k l)

type positive =
| XI of positive
| XO of positive
| XH

type n =
| N0
| Npos of positive

type z =
| Z0
| Zpos of positive
| Zneg of positive

(** val eqb : bool -> bool -> bool **)

let eqb b1 b2 =
  if b1 then b2 else if b2 then false else true

(** val gmin : ('a1 -> 'a1 -> comparison) -> 'a1 -> 'a1 -> 'a1 **)

let gmin cmp x y =
  match cmp x y with
  | Gt -> y
  | _ -> x

module Nat =
 struct
  (** val eqb : nat -> nat -> bool **)

  let rec eqb n0 m =
    match n0 with
    | O -> (match m with
            | O -> true
            | S _ -> false)
    | S n' -> (match m with
               | O -> false
               | S m' -> eqb n' m')

  (** val leb : nat -> nat -> bool **)

  let rec leb n0 m =
    match n0 with
    | O -> true
    | S n' -> (match m with
               | O -> false
               | S m' -> leb n' m')

  (** val divmod : nat -> nat -> nat -> nat -> nat * nat **)

  let rec divmod x y q0 u =
    match x with
    | O -> (q0, u)
    | S x' ->
      (match u with
       | O -> divmod x' y (S q0) y
       | S u' -> divmod x' y q0 u')

  (** val div : nat -> nat -> nat **)

  let div x y = match y with
  | O -> y
  | S y' -> fst (divmod x y' O y')
 end

module Pos =
 struct
  type mask =
  | IsNul
  | IsPos of positive
  | IsNeg
 end

module Coq_Pos =
 struct
  (** val succ : positive -> positive **)

  let rec succ = function
  | XI p -> XO (succ p)
  | XO p -> XI p
  | XH -> XO XH

  (** val add : positive -> positive -> positive **)

  let rec add x y =
    match x with
    | XI p ->
      (match y with
       | XI q0 -> XO (add_carry p q0)
       | XO q0 -> XI (add p q0)
       | XH -> XO (succ p))
    | XO p ->
      (match y with
       | XI q0 -> XI (add p q0)
       | XO q0 -> XO (add p q0)
       | XH -> XI p)
    | XH -> (match y with
             | XI q0 -> XO (succ q0)
             | XO q0 -> XI q0
             | XH -> XO XH)

  (** val add_carry : positive -> positive -> positive **)

  and add_carry x y =
    match x with
    | XI p ->
      (match y with
       | XI q0 -> XI (add_carry p q0)
       | XO q0 -> XO (add_carry p q0)
       | XH -> XI (succ p))
    | XO p ->
      (match y with
       | XI q0 -> XO (add_carry p q0)
       | XO q0 -> XI (add p q0)
       | XH -> XO (succ p))
    | XH ->
      (match y with
       | XI q0 -> XI (succ q0)
       | XO q0 -> XO (succ q0)
       | XH -> XI XH)

  (** val pred_double : positive -> positive **)

  let rec pred_double = function
  | XI p -> XI (XO p)
  | XO p -> XI (pred_double p)
  | XH -> XH

  type mask = Pos.mask =
  | IsNul
  | IsPos of positive
  | IsNeg

  (** val succ_double_mask : mask -> mask **)

  let succ_double_mask = function
  | IsNul -> IsPos XH
  | IsPos p -> IsPos (XI p)
  | IsNeg -> IsNeg

  (** val double_mask : mask -> mask **)

  let double_mask = function
  | IsPos p -> IsPos (XO p)
  | x0 -> x0

  (** val double_pred_mask : positive -> mask **)

  let double_pred_mask = function
  | XI p -> IsPos (XO (XO p))
  | XO p -> IsPos (XO (pred_double p))
  | XH -> IsNul

  (** val sub_mask : positive -> positive -> mask **)

  let rec sub_mask x y =
    match x with
    | XI p ->
      (match y with
       | XI q0 -> double_mask (sub_mask p q0)
       | XO q0 -> succ_double_mask (sub_mask p q0)
       | XH -> IsPos (XO p))
    | XO p ->
      (match y with
       | XI q0 -> succ_double_mask (sub_mask_carry p q0)
       | XO q0 -> double_mask (sub_mask p q0)
       | XH -> IsPos (pred_double p))
    | XH -> (match y with
             | XH -> IsNul
             | _ -> IsNeg)

  (** val sub_mask_carry : positive -> positive -> mask **)

  and sub_mask_carry x y =
    match x with
    | XI p ->
      (match y with
       | XI q0 -> succ_double_mask (sub_mask_carry p q0)
       | XO q0 -> double_mask (sub_mask p q0)
       | XH -> IsPos (pred_double p))
    | XO p ->
      (match y with
       | XI q0 -> double_mask (sub_mask_carry p q0)
       | XO q0 -> succ_double_mask (sub_mask_carry p q0)
       | XH -> double_pred_mask p)
    | XH -> IsNeg

  (** val sub : positive -> positive -> positive **)

  let sub x y =
    match sub_mask x y with
    | IsPos z0 -> z0
    | _ -> XH

  (** val mul : positive -> positive -> positive **)

  let rec mul x y =
    match x with
    | XI p -> add y (XO (mul p y))
    | XO p -> XO (mul p y)
    | XH -> y

  (** val iter : ('a1 -> 'a1) -> 'a1 -> positive -> 'a1 **)

  let rec iter f x = function
  | XI n' -> f (iter f (iter f x n') n')
  | XO n' -> iter f (iter f x n') n'
  | XH -> f x

  (** val size_nat : positive -> nat **)

  let rec size_nat = function
  | XI p0 -> S (size_nat p0)
  | XO p0 -> S (size_nat p0)
  | XH -> S O

  (** val size : positive -> positive **)

  let rec size = function
  | XI p0 -> succ (size p0)
  | XO p0 -> succ (size p0)
  | XH -> XH

  (** val compare_cont : comparison -> positive -> positive -> comparison **)

  let rec compare_cont r x y =
    match x with
    | XI p ->
      (match y with
       | XI q0 -> compare_cont r p q0
       | XO q0 -> compare_cont Gt p q0
       | XH -> Gt)
    | XO p ->
      (match y with
       | XI q0 -> compare_cont Lt p q0
       | XO q0 -> compare_cont r p q0
       | XH -> Gt)
    | XH -> (match y with
             | XH -> r
             | _ -> Lt)

  (** val compare : positive -> positive -> comparison **)

  let compare =
    compare_cont Eq

  (** val eqb : positive -> positive -> bool **)

  let rec eqb p q0 =
    match p with
    | XI p0 -> (match q0 with
                | XI q1 -> eqb p0 q1
                | _ -> false)
    | XO p0 -> (match q0 with
                | XO q1 -> eqb p0 q1
                | _ -> false)
    | XH -> (match q0 with
             | XH -> true
             | _ -> false)

  (** val ggcdn :
      nat -> positive -> positive -> positive * (positive * positive) **)

  let rec ggcdn n0 a b =
    match n0 with
    | O -> (XH, (a, b))
    | S n1 ->
      (match a with
       | XI a' ->
         (match b with
          | XI b' ->
            (match compare a' b' with
             | Eq -> (a, (XH, XH))
             | Lt ->
               let (g, p) = ggcdn n1 (sub b' a') a in
               let (ba, aa) = p in (g, (aa, (add aa (XO ba))))
             | Gt ->
               let (g, p) = ggcdn n1 (sub a' b') b in
               let (ab, bb) = p in (g, ((add bb (XO ab)), bb)))
          | XO b0 ->
            let (g, p) = ggcdn n1 a b0 in
            let (aa, bb) = p in (g, (aa, (XO bb)))
          | XH -> (XH, (a, XH)))
       | XO a0 ->
         (match b with
          | XI _ ->
            let (g, p) = ggcdn n1 a0 b in
            let (aa, bb) = p in (g, ((XO aa), bb))
          | XO b0 -> let (g, p) = ggcdn n1 a0 b0 in ((XO g), p)
          | XH -> (XH, (a, XH)))
       | XH -> (XH, (XH, b)))

  (** val ggcd : positive -> positive -> positive * (positive * positive) **)

  let ggcd a b =
    ggcdn (Coq__1.add (size_nat a) (size_nat b)) a b

  (** val iter_op : ('a1 -> 'a1 -> 'a1) -> positive -> 'a1 -> 'a1 **)

  let rec iter_op op p a =
    match p with
    | XI p0 -> op a (iter_op op p0 (op a a))
    | XO p0 -> iter_op op p0 (op a a)
    | XH -> a

  (** val to_nat : positive -> nat **)

  let to_nat x =
    iter_op Coq__1.add x (S O)

  (** val of_succ_nat : nat -> positive **)

  let rec of_succ_nat = function
  | O -> XH
  | S x -> succ (of_succ_nat x)
 end

module N =
 struct
  (** val succ_double : n -> n **)

  let succ_double = function
  | N0 -> Npos XH
  | Npos p -> Npos (XI p)

  (** val double : n -> n **)

  let double = function
  | N0 -> N0
  | Npos p -> Npos (XO p)

  (** val sub : n -> n -> n **)

  let sub n0 m =
    match n0 with
    | N0 -> N0
    | Npos n' ->
      (match m with
       | N0 -> n0
       | Npos m' ->
         (match Coq_Pos.sub_mask n' m' with
          | Coq_Pos.IsPos p -> Npos p
          | _ -> N0))

  (** val compare : n -> n -> comparison **)

  let compare n0 m =
    match n0 with
    | N0 -> (match m with
             | N0 -> Eq
             | Npos _ -> Lt)
    | Npos n' -> (match m with
                  | N0 -> Gt
                  | Npos m' -> Coq_Pos.compare n' m')

  (** val leb : n -> n -> bool **)

  let leb x y =
    match compare x y with
    | Gt -> false
    | _ -> true

  (** val pos_div_eucl : positive -> n -> n * n **)

  let rec pos_div_eucl a b =
    match a with
    | XI a' ->
      let (q0, r) = pos_div_eucl a' b in
      let r' = succ_double r in
      if leb b r' then ((succ_double q0), (sub r' b)) else ((double q0), r')
    | XO a' ->
      let (q0, r) = pos_div_eucl a' b in
      let r' = double r in
      if leb b r' then ((succ_double q0), (sub r' b)) else ((double q0), r')
    | XH ->
      (match b with
       | N0 -> (N0, (Npos XH))
       | Npos p -> (match p with
                    | XH -> ((Npos XH), N0)
                    | _ -> (N0, (Npos XH))))
 end

module Z =
 struct
  (** val double : z -> z **)

  let double = function
  | Z0 -> Z0
  | Zpos p -> Zpos (XO p)
  | Zneg p -> Zneg (XO p)

  (** val succ_double : z -> z **)

  let succ_double = function
  | Z0 -> Zpos XH
  | Zpos p -> Zpos (XI p)
  | Zneg p -> Zneg (Coq_Pos.pred_double p)

  (** val pred_double : z -> z **)

  let pred_double = function
  | Z0 -> Zneg XH
  | Zpos p -> Zpos (Coq_Pos.pred_double p)
  | Zneg p -> Zneg (XI p)

  (** val pos_sub : positive -> positive -> z **)

  let rec pos_sub x y =
    match x with
    | XI p ->
      (match y with
       | XI q0 -> double (pos_sub p q0)
       | XO q0 -> succ_double (pos_sub p q0)
       | XH -> Zpos (XO p))
    | XO p ->
      (match y with
       | XI q0 -> pred_double (pos_sub p q0)
       | XO q0 -> double (pos_sub p q0)
       | XH -> Zpos (Coq_Pos.pred_double p))
    | XH ->
      (match y with
       | XI q0 -> Zneg (XO q0)
       | XO q0 -> Zneg (Coq_Pos.pred_double q0)
       | XH -> Z0)

  (** val add : z -> z -> z **)

  let add x y =
    match x with
    | Z0 -> y
    | Zpos x' ->
      (match y with
       | Z0 -> x
       | Zpos y' -> Zpos (Coq_Pos.add x' y')
       | Zneg y' -> pos_sub x' y')
    | Zneg x' ->
      (match y with
       | Z0 -> x
       | Zpos y' -> pos_sub y' x'
       | Zneg y' -> Zneg (Coq_Pos.add x' y'))

  (** val opp : z -> z **)

  let opp = function
  | Z0 -> Z0
  | Zpos x0 -> Zneg x0
  | Zneg x0 -> Zpos x0

  (** val sub : z -> z -> z **)

  let sub m n0 =
    add m (opp n0)

  (** val mul : z -> z -> z **)

  let mul x y =
    match x with
    | Z0 -> Z0
    | Zpos x' ->
      (match y with
       | Z0 -> Z0
       | Zpos y' -> Zpos (Coq_Pos.mul x' y')
       | Zneg y' -> Zneg (Coq_Pos.mul x' y'))
    | Zneg x' ->
      (match y with
       | Z0 -> Z0
       | Zpos y' -> Zneg (Coq_Pos.mul x' y')
       | Zneg y' -> Zpos (Coq_Pos.mul x' y'))

  (** val pow_pos : z -> positive -> z **)

  let pow_pos z0 =
    Coq_Pos.iter (mul z0) (Zpos XH)

  (** val pow : z -> z -> z **)

  let pow x = function
  | Z0 -> Zpos XH
  | Zpos p -> pow_pos x p
  | Zneg _ -> Z0

  (** val compare : z -> z -> comparison **)

  let compare x y =
    match x with
    | Z0 -> (match y with
             | Z0 -> Eq
             | Zpos _ -> Lt
             | Zneg _ -> Gt)
    | Zpos x' -> (match y with
                  | Zpos y' -> Coq_Pos.compare x' y'
                  | _ -> Gt)
    | Zneg x' ->
      (match y with
       | Zneg y' -> compOpp (Coq_Pos.compare x' y')
       | _ -> Lt)

  (** val sgn : z -> z **)

  let sgn = function
  | Z0 -> Z0
  | Zpos _ -> Zpos XH
  | Zneg _ -> Zneg XH

  (** val leb : z -> z -> bool **)

  let leb x y =
    match compare x y with
    | Gt -> false
    | _ -> true

  (** val ltb : z -> z -> bool **)

  let ltb x y =
    match compare x y with
    | Lt -> true
    | _ -> false

  (** val geb : z -> z -> bool **)

  let geb x y =
    match compare x y with
    | Lt -> false
    | _ -> true

  (** val gtb : z -> z -> bool **)

  let gtb x y =
    match compare x y with
    | Gt -> true
    | _ -> false

  (** val eqb : z -> z -> bool **)

  let eqb x y =
    match x with
    | Z0 -> (match y with
             | Z0 -> true
             | _ -> false)
    | Zpos p -> (match y with
                 | Zpos q0 -> Coq_Pos.eqb p q0
                 | _ -> false)
    | Zneg p -> (match y with
                 | Zneg q0 -> Coq_Pos.eqb p q0
                 | _ -> false)

  (** val max : z -> z -> z **)

  let max n0 m =
    match compare n0 m with
    | Lt -> m
    | _ -> n0

  (** val min : z -> z -> z **)

  let min n0 m =
    match compare n0 m with
    | Gt -> m
    | _ -> n0

  (** val abs : z -> z **)

  let abs = function
  | Zneg p -> Zpos p
  | x -> x

  (** val to_nat : z -> nat **)

  let to_nat = function
  | Zpos p -> Coq_Pos.to_nat p
  | _ -> O

  (** val of_nat : nat -> z **)

  let of_nat = function
  | O -> Z0
  | S n1 -> Zpos (Coq_Pos.of_succ_nat n1)

  (** val of_N : n -> z **)

  let of_N = function
  | N0 -> Z0
  | Npos p -> Zpos p

  (** val to_pos : z -> positive **)

  let to_pos = function
  | Zpos p -> p
  | _ -> XH

  (** val pos_div_eucl : positive -> z -> z * z **)

  let rec pos_div_eucl a b =
    match a with
    | XI a' ->
      let (q0, r) = pos_div_eucl a' b in
      let r' = add (mul (Zpos (XO XH)) r) (Zpos XH) in
      if ltb r' b
      then ((mul (Zpos (XO XH)) q0), r')
      else ((add (mul (Zpos (XO XH)) q0) (Zpos XH)), (sub r' b))
    | XO a' ->
      let (q0, r) = pos_div_eucl a' b in
      let r' = mul (Zpos (XO XH)) r in
      if ltb r' b
      then ((mul (Zpos (XO XH)) q0), r')
      else ((add (mul (Zpos (XO XH)) q0) (Zpos XH)), (sub r' b))
    | XH -> if leb (Zpos (XO XH)) b then (Z0, (Zpos XH)) else ((Zpos XH), Z0)

  (** val div_eucl : z -> z -> z * z **)

  let div_eucl a b =
    match a with
    | Z0 -> (Z0, Z0)
    | Zpos a' ->
      (match b with
       | Z0 -> (Z0, a)
       | Zpos _ -> pos_div_eucl a' b
       | Zneg b' ->
         let (q0, r) = pos_div_eucl a' (Zpos b') in
         (match r with
          | Z0 -> ((opp q0), Z0)
          | _ -> ((opp (add q0 (Zpos XH))), (add b r))))
    | Zneg a' ->
      (match b with
       | Z0 -> (Z0, a)
       | Zpos _ ->
         let (q0, r) = pos_div_eucl a' b in
         (match r with
          | Z0 -> ((opp q0), Z0)
          | _ -> ((opp (add q0 (Zpos XH))), (sub b r)))
       | Zneg b' -> let (q0, r) = pos_div_eucl a' (Zpos b') in (q0, (opp r)))

  (** val div : z -> z -> z **)

  let div a b =
    let (q0, _) = div_eucl a b in q0

  (** val modulo : z -> z -> z **)

  let modulo a b =
    let (_, r) = div_eucl a b in r

  (** val quotrem : z -> z -> z * z **)

  let quotrem a b =
    match a with
    | Z0 -> (Z0, Z0)
    | Zpos a0 ->
      (match b with
       | Z0 -> (Z0, a)
       | Zpos b0 ->
         let (q0, r) = N.pos_div_eucl a0 (Npos b0) in ((of_N q0), (of_N r))
       | Zneg b0 ->
         let (q0, r) = N.pos_div_eucl a0 (Npos b0) in
         ((opp (of_N q0)), (of_N r)))
    | Zneg a0 ->
      (match b with
       | Z0 -> (Z0, a)
       | Zpos b0 ->
         let (q0, r) = N.pos_div_eucl a0 (Npos b0) in
         ((opp (of_N q0)), (opp (of_N r)))
       | Zneg b0 ->
         let (q0, r) = N.pos_div_eucl a0 (Npos b0) in
         ((of_N q0), (opp (of_N r))))

  (** val quot : z -> z -> z **)

  let quot a b =
    fst (quotrem a b)

  (** val even : z -> bool **)

  let even = function
  | Z0 -> true
  | Zpos p -> (match p with
               | XO _ -> true
               | _ -> false)
  | Zneg p -> (match p with
               | XO _ -> true
               | _ -> false)

  (** val odd : z -> bool **)

  let odd = function
  | Z0 -> false
  | Zpos p -> (match p with
               | XO _ -> false
               | _ -> true)
  | Zneg p -> (match p with
               | XO _ -> false
               | _ -> true)

  (** val log2 : z -> z **)

  let log2 = function
  | Zpos p0 ->
    (match p0 with
     | XI p -> Zpos (Coq_Pos.size p)
     | XO p -> Zpos (Coq_Pos.size p)
     | XH -> Z0)
  | _ -> Z0

  (** val ggcd : z -> z -> z * (z * z) **)

  let ggcd a b =
    match a with
    | Z0 -> ((abs b), (Z0, (sgn b)))
    | Zpos a0 ->
      (match b with
       | Z0 -> ((abs a), ((sgn a), Z0))
       | Zpos b0 ->
         let (g, p) = Coq_Pos.ggcd a0 b0 in
         let (aa, bb) = p in ((Zpos g), ((Zpos aa), (Zpos bb)))
       | Zneg b0 ->
         let (g, p) = Coq_Pos.ggcd a0 b0 in
         let (aa, bb) = p in ((Zpos g), ((Zpos aa), (Zneg bb))))
    | Zneg a0 ->
      (match b with
       | Z0 -> ((abs a), ((sgn a), Z0))
       | Zpos b0 ->
         let (g, p) = Coq_Pos.ggcd a0 b0 in
         let (aa, bb) = p in ((Zpos g), ((Zneg aa), (Zpos bb)))
       | Zneg b0 ->
         let (g, p) = Coq_Pos.ggcd a0 b0 in
         let (aa, bb) = p in ((Zpos g), ((Zneg aa), (Zneg bb))))
 end

(** val hd : 'a1 -> 'a1 list -> 'a1 **)

let hd default = function
| [] -> default
| x :: _ -> x

(** val tl : 'a1 list -> 'a1 list **)

let tl = function
| [] -> []
| _ :: m -> m

(** val nth : nat -> 'a1 list -> 'a1 -> 'a1 **)

let rec nth n0 l default =
  match n0 with
  | O -> (match l with
          | [] -> default
          | x :: _ -> x)
  | S m -> (match l with
            | [] -> default
            | _ :: t -> nth m t default)

(** val last : 'a1 list -> 'a1 -> 'a1 **)

let rec last l d =
  match l with
  | [] -> d
  | a :: l0 -> (match l0 with
                | [] -> a
                | _ :: _ -> last l0 d)

(** val removelast : 'a1 list -> 'a1 list **)

let rec removelast = function
| [] -> []
| a :: l0 -> (match l0 with
              | [] -> []
              | _ :: _ -> a :: (removelast l0))

(** val rev : 'a1 list -> 'a1 list **)

let rec rev = function
| [] -> []
| x :: l' -> app (rev l') (x :: [])

(** val concat : 'a1 list list -> 'a1 list **)

let rec concat = function
| [] -> []
| x :: l0 -> app x (concat l0)

(** val map : ('a1 -> 'a2) -> 'a1 list -> 'a2 list **)

let rec map f = function
| [] -> []
| a :: t -> (f a) :: (map f t)

(** val flat_map : ('a1 -> 'a2 list) -> 'a1 list -> 'a2 list **)

let rec flat_map f = function
| [] -> []
| x :: t -> app (f x) (flat_map f t)

(** val fold_left : ('a1 -> 'a2 -> 'a1) -> 'a2 list -> 'a1 -> 'a1 **)

let rec fold_left f l a0 =
  match l with
  | [] -> a0
  | b :: t -> fold_left f t (f a0 b)

(** val fold_right : ('a2 -> 'a1 -> 'a1) -> 'a1 -> 'a2 list -> 'a1 **)

let rec fold_right f a0 = function
| [] -> a0
| b :: t -> f b (fold_right f a0 t)

(** val existsb : ('a1 -> bool) -> 'a1 list -> bool **)

let rec existsb f = function
| [] -> false
| a :: l0 -> (||) (f a) (existsb f l0)

(** val forallb : ('a1 -> bool) -> 'a1 list -> bool **)

let rec forallb f = function
| [] -> true
| a :: l0 -> (&&) (f a) (forallb f l0)

(** val filter : ('a1 -> bool) -> 'a1 list -> 'a1 list **)

let rec filter f = function
| [] -> []
| x :: l0 -> if f x then x :: (filter f l0) else filter f l0

(** val combine : 'a1 list -> 'a2 list -> ('a1 * 'a2) list **)

let rec combine l l' =
  match l with
  | [] -> []
  | x :: tl0 ->
    (match l' with
     | [] -> []
     | y :: tl' -> (x, y) :: (combine tl0 tl'))

(** val list_prod : 'a1 list -> 'a2 list -> ('a1 * 'a2) list **)

let rec list_prod l l' =
  match l with
  | [] -> []
  | x :: t -> app (map (fun y -> (x, y)) l') (list_prod t l')

(** val firstn : nat -> 'a1 list -> 'a1 list **)

let rec firstn n0 l =
  match n0 with
  | O -> []
  | S n1 -> (match l with
             | [] -> []
             | a :: l0 -> a :: (firstn n1 l0))

(** val skipn : nat -> 'a1 list -> 'a1 list **)

let rec skipn n0 l =
  match n0 with
  | O -> l
  | S n1 -> (match l with
             | [] -> []
             | _ :: l0 -> skipn n1 l0)

(** val repeat : 'a1 -> nat -> 'a1 list **)

let rec repeat x = function
| O -> []
| S k -> x :: (repeat x k)

type q = { qnum : z; qden : positive }

(** val inject_Z : z -> q **)

let inject_Z x =
  { qnum = x; qden = XH }

(** val qcompare : q -> q -> comparison **)

let qcompare p q0 =
  Z.compare (Z.mul p.qnum (Zpos q0.qden)) (Z.mul q0.qnum (Zpos p.qden))

(** val qplus : q -> q -> q **)

let qplus x y =
  { qnum = (Z.add (Z.mul x.qnum (Zpos y.qden)) (Z.mul y.qnum (Zpos x.qden)));
    qden = (Coq_Pos.mul x.qden y.qden) }

(** val qmult : q -> q -> q **)

let qmult x y =
  { qnum = (Z.mul x.qnum y.qnum); qden = (Coq_Pos.mul x.qden y.qden) }

(** val qopp : q -> q **)

let qopp x =
  { qnum = (Z.opp x.qnum); qden = x.qden }

(** val qminus : q -> q -> q **)

let qminus x y =
  qplus x (qopp y)

(** val qinv : q -> q **)

let qinv x =
  match x.qnum with
  | Z0 -> { qnum = Z0; qden = XH }
  | Zpos p -> { qnum = (Zpos x.qden); qden = p }
  | Zneg p -> { qnum = (Zneg x.qden); qden = p }

(** val qdiv : q -> q -> q **)

let qdiv x y =
  qmult x (qinv y)

(** val qred : q -> q **)

let qred q0 =
  let { qnum = q1; qden = q2 } = q0 in
  let (r1, r2) = snd (Z.ggcd q1 (Zpos q2)) in
  { qnum = r1; qden = (Z.to_pos r2) }

(** val nthZ : 'a1 -> 'a1 list -> z -> 'a1 **)

let nthZ d l i =
  if Z.ltb i Z0 then d else nth (Z.to_nat i) l d

(** val zlen : 'a1 list -> z **)

let zlen l =
  Z.of_nat (length l)

(** val zseq : z -> nat -> z list **)

let rec zseq a = function
| O -> []
| S k -> a :: (zseq (Z.add a (Zpos XH)) k)

(** val upd : 'a1 list -> nat -> 'a1 -> 'a1 list **)

let rec upd l i v =
  match l with
  | [] -> []
  | h :: t -> (match i with
               | O -> v :: t
               | S k -> h :: (upd t k v))

(** val updZ : 'a1 list -> z -> 'a1 -> 'a1 list **)

let updZ l i v =
  if Z.ltb i Z0 then l else upd l (Z.to_nat i) v

(** val sumZ : z list -> z **)

let sumZ l =
  fold_right Z.add Z0 l

(** val minl : z -> z list -> z **)

let minl d l =
  fold_right Z.min d l

(** val maxl : z -> z list -> z **)

let maxl d l =
  fold_right Z.max d l

type ity = { bits : z; signed : bool }

(** val tmin : ity -> z **)

let tmin t =
  if t.signed
  then Z.opp (Z.pow (Zpos (XO XH)) (Z.sub t.bits (Zpos XH)))
  else Z0

(** val tmax : ity -> z **)

let tmax t =
  if t.signed
  then Z.sub (Z.pow (Zpos (XO XH)) (Z.sub t.bits (Zpos XH))) (Zpos XH)
  else Z.sub (Z.pow (Zpos (XO XH)) t.bits) (Zpos XH)

(** val wrap : ity -> z -> z **)

let wrap t x =
  let m = Z.pow (Zpos (XO XH)) t.bits in
  let r = Z.modulo x m in
  if t.signed
  then if Z.ltb r (Z.pow (Zpos (XO XH)) (Z.sub t.bits (Zpos XH)))
       then r
       else Z.sub r m
  else r

(** val size0 : z list -> z **)

let rec size0 = function
| [] -> Zpos XH
| d :: r -> Z.mul d (size0 r)

(** val ravel : z list -> z list -> z **)

let rec ravel sh pos =
  match sh with
  | [] -> Z0
  | _ :: r ->
    (match pos with
     | [] -> Z0
     | p :: q0 -> Z.add (Z.mul p (size0 r)) (ravel r q0))

(** val unravel : z list -> z -> z list **)

let rec unravel sh i =
  match sh with
  | [] -> []
  | _ :: r -> (Z.div i (size0 r)) :: (unravel r (Z.modulo i (size0 r)))

(** val in_shapeb : z list -> z list -> bool **)

let rec in_shapeb sh pos =
  match sh with
  | [] -> (match pos with
           | [] -> true
           | _ :: _ -> false)
  | d :: r ->
    (match pos with
     | [] -> false
     | p :: q0 -> (&&) ((&&) (Z.leb Z0 p) (Z.ltb p d)) (in_shapeb r q0))

(** val all_positions : z list -> z list list **)

let all_positions sh =
  map (unravel sh) (zseq Z0 (Z.to_nat (size0 sh)))

type arr = { shape : z list; data : z list }

(** val aget : arr -> z list -> z **)

let aget a pos =
  nthZ Z0 a.data (ravel a.shape pos)

(** val padd : z list -> z list -> z list **)

let rec padd p q0 =
  match p with
  | [] -> []
  | a :: p' ->
    (match q0 with
     | [] -> []
     | b :: q' -> (Z.add a b) :: (padd p' q'))

(** val psub : z list -> z list -> z list **)

let rec psub p q0 =
  match p with
  | [] -> []
  | a :: p' ->
    (match q0 with
     | [] -> []
     | b :: q' -> (Z.sub a b) :: (psub p' q'))

(** val centre : z list -> z list **)

let centre sh =
  map (fun d -> Z.quot d (Zpos (XO XH))) sh

(** val m_nearest : z **)

let m_nearest =
  Z0

(** val m_wrap : z **)

let m_wrap =
  Zpos XH

(** val m_reflect : z **)

let m_reflect =
  Zpos (XO XH)

(** val m_mirror : z **)

let m_mirror =
  Zpos (XI XH)

(** val m_constant : z **)

let m_constant =
  Zpos (XO (XO XH))

(** val clamp : z -> z -> z **)

let clamp x len =
  Z.max Z0 (Z.min (Z.sub len (Zpos XH)) x)

(** val reflect_spec : z -> z -> z **)

let reflect_spec cc len =
  let r = Z.modulo cc (Z.mul (Zpos (XO XH)) len) in
  if Z.ltb r len
  then r
  else Z.sub (Z.sub (Z.mul (Zpos (XO XH)) len) (Zpos XH)) r

(** val mirror_spec : z -> z -> z **)

let mirror_spec cc len =
  if Z.leb len (Zpos XH)
  then Z0
  else let r = Z.modulo cc (Z.sub (Z.mul (Zpos (XO XH)) len) (Zpos (XO XH)))
       in
       if Z.ltb r len
       then r
       else Z.sub (Z.sub (Z.mul (Zpos (XO XH)) len) (Zpos (XO XH))) r

(** val border_map : z -> z -> z -> z option **)

let border_map mode cc len =
  if Z.eqb mode m_nearest
  then Some (clamp cc len)
  else if Z.eqb mode m_wrap
       then Some (Z.modulo cc len)
       else if Z.eqb mode m_reflect
            then Some (reflect_spec cc len)
            else if Z.eqb mode m_mirror
                 then Some (mirror_spec cc len)
                 else if (&&) (Z.leb Z0 cc) (Z.ltb cc len)
                      then Some cc
                      else None

(** val border_pos : z -> z list -> z list -> z list option **)

let rec border_pos mode sh pos =
  match sh with
  | [] -> Some []
  | d :: r ->
    (match pos with
     | [] -> Some []
     | p :: q0 ->
       (match border_map mode p d with
        | Some c ->
          (match border_pos mode r q0 with
           | Some t -> Some (c :: t)
           | None -> None)
        | None -> None))

(** val clampos : z list -> z list -> z list **)

let clampos sh pos =
  map (fun dp -> clamp (snd dp) (fst dp)) (combine sh pos)

(** val border_flag_value : z **)

let border_flag_value =
  Z.sub (Z.pow (Zpos (XO XH)) (Zpos (XI (XI (XI (XI (XI XH))))))) (Zpos XH)

(** val extendNearest : z **)

let extendNearest =
  Z0

(** val extendWrap : z **)

let extendWrap =
  Zpos XH

(** val extendReflect : z **)

let extendReflect =
  Zpos (XO XH)

(** val extendMirror : z **)

let extendMirror =
  Zpos (XI XH)

(** val extendConstant : z **)

let extendConstant =
  Zpos (XO (XO XH))

(** val extendIgnore : z **)

let extendIgnore =
  Zpos (XI (XO XH))

(** val fix_offset : z -> z -> z -> z **)

let fix_offset mode cc len =
  if Z.eqb mode extendMirror
  then if Z.ltb cc Z0
       then if Z.leb len (Zpos XH)
            then Z0
            else let sz2 = Z.sub (Z.mul (Zpos (XO XH)) len) (Zpos (XO XH)) in
                 let cc0 = Z.add (Z.mul sz2 (Z.quot (Z.opp cc) sz2)) cc in
                 if Z.leb cc0 (Z.sub (Zpos XH) len)
                 then Z.add cc0 sz2
                 else Z.opp cc0
       else if Z.geb cc len
            then if Z.leb len (Zpos XH)
                 then Z0
                 else let sz2 =
                        Z.sub (Z.mul (Zpos (XO XH)) len) (Zpos (XO XH))
                      in
                      let cc0 = Z.sub cc (Z.mul sz2 (Z.quot cc sz2)) in
                      if Z.geb cc0 len then Z.sub sz2 cc0 else cc0
            else cc
  else if Z.eqb mode extendReflect
       then if Z.ltb cc Z0
            then if Z.leb len (Zpos XH)
                 then Z0
                 else let sz2 = Z.mul (Zpos (XO XH)) len in
                      if Z.ltb cc (Z.opp sz2)
                      then let cc0 =
                             Z.add
                               (Z.mul sz2
                                 (Z.quot (Z.sub (Z.opp cc) (Zpos XH)) sz2)) cc
                           in
                           if Z.ltb cc0 (Z.opp len)
                           then Z.add cc0 sz2
                           else Z.sub (Z.opp cc0) (Zpos XH)
                      else if Z.ltb cc (Z.opp len)
                           then Z.add cc sz2
                           else Z.sub (Z.opp cc) (Zpos XH)
            else if Z.geb cc len
                 then if Z.leb len (Zpos XH)
                      then Z0
                      else let sz2 = Z.mul (Zpos (XO XH)) len in
                           let cc0 = Z.sub cc (Z.mul sz2 (Z.quot cc sz2)) in
                           if Z.geb cc0 len
                           then Z.sub (Z.sub sz2 cc0) (Zpos XH)
                           else cc0
                 else cc
       else if Z.eqb mode extendWrap
            then if Z.ltb cc Z0
                 then if Z.leb len (Zpos XH)
                      then Z0
                      else let cc0 =
                             Z.add cc (Z.mul len (Z.quot (Z.opp cc) len))
                           in
                           if Z.ltb cc0 Z0 then Z.add cc0 len else cc0
                 else if Z.geb cc len
                      then if Z.leb len (Zpos XH)
                           then Z0
                           else Z.sub cc (Z.mul len (Z.quot cc len))
                      else cc
            else if Z.eqb mode extendNearest
                 then if Z.ltb cc Z0
                      then Z0
                      else if Z.geb cc len then Z.sub len (Zpos XH) else cc
                 else if (||) (Z.eqb mode extendIgnore)
                           (Z.eqb mode extendConstant)
                      then if (||) (Z.ltb cc Z0) (Z.geb cc len)
                           then border_flag_value
                           else cc
                      else Z0

(** val erode_sub : ity -> z -> z -> z **)

let erode_sub ty a b =
  if Z.eqb b (tmin ty)
  then tmax ty
  else if (&&) (negb ty.signed) (Z.gtb b a)
       then Z0
       else let r = wrap ty (Z.sub a b) in
            if (&&) ty.signed (Z.gtb r a) then tmin ty else r

(** val erode_sub_bool : z -> z -> z **)

let erode_sub_bool a b =
  if (&&) (negb (Z.eqb a Z0)) (negb (Z.eqb b Z0)) then Zpos XH else Z0

(** val dilate_add : ity -> z -> z -> z **)

let dilate_add ty a b =
  if Z.eqb a (tmin ty)
  then a
  else if Z.eqb b (tmin ty)
       then b
       else let r = wrap ty (Z.add a b) in
            if (&&) (Z.gtb b Z0) (Z.ltb r a) then tmax ty else r

(** val dilate_add_bool : z -> z -> z **)

let dilate_add_bool a b =
  if (&&) (negb (Z.eqb a Z0)) (negb (Z.eqb b Z0)) then Zpos XH else Z0

(** val subm : ity -> z -> z -> z **)

let subm ty a b =
  if ty.signed
  then let val0 = wrap ty (Z.sub a b) in
       if (&&) (Z.geb b Z0) (Z.leb val0 a)
       then wrap ty val0
       else if (&&) (Z.ltb b Z0) (Z.gtb val0 a)
            then wrap ty val0
            else if Z.geb b Z0 then wrap ty (tmin ty) else wrap ty (tmax ty)
  else if Z.gtb b a then wrap ty Z0 else wrap ty (Z.sub a b)

(** val markerinfo_lt : z -> z -> z -> z -> bool **)

let markerinfo_lt cost idx other_cost other_idx =
  if Z.eqb cost other_cost then Z.gtb idx other_idx else Z.gtb cost other_cost

type dt =
| DBool
| DInt of ity

(** val dmin : dt -> z **)

let dmin = function
| DBool -> Z0
| DInt t -> tmin t

(** val dmax : dt -> z **)

let dmax = function
| DBool -> Zpos XH
| DInt t -> tmax t

(** val is_bool : dt -> bool **)

let is_bool = function
| DBool -> true
| DInt _ -> false

(** val fixpos : z -> z list -> z list -> z list option **)

let rec fixpos mode sh pos =
  match sh with
  | [] -> Some []
  | d :: r ->
    (match pos with
     | [] -> Some []
     | p :: q0 ->
       let c = fix_offset mode p d in
       if Z.eqb c border_flag_value
       then None
       else (match fixpos mode r q0 with
             | Some t -> Some (c :: t)
             | None -> None))

(** val entries : bool -> arr -> (z list * z) list **)

let entries compress bc =
  filter (fun e -> (||) (negb compress) (negb (Z.eqb (snd e) Z0)))
    (map (fun k -> ((psub k (centre bc.shape)), (aget bc k)))
      (all_positions bc.shape))

(** val retrieve : z -> arr -> z list -> z list -> z option **)

let retrieve mode f p off =
  match fixpos mode f.shape (padd p off) with
  | Some q0 -> Some (aget f q0)
  | None -> None

(** val esub : dt -> z -> z -> z **)

let esub d a b =
  match d with
  | DBool -> erode_sub_bool a b
  | DInt t -> erode_sub t a b

(** val dadd : dt -> z -> z -> z **)

let dadd d a b =
  match d with
  | DBool -> dilate_add_bool a b
  | DInt t -> dilate_add t a b

(** val getn : arr -> z list -> z list -> z **)

let getn f p off =
  match retrieve extendNearest f p off with
  | Some x -> x
  | None -> Z0

(** val erode_at : dt -> arr -> arr -> z list -> z **)

let erode_at d f bc p =
  fold_left (fun v e -> Z.min v (esub d (getn f p (fst e)) (snd e)))
    (entries (is_bool d) bc) (dmax d)

(** val erode_generic : dt -> arr -> arr -> z list **)

let erode_generic d f bc =
  map (erode_at d f bc) (all_positions f.shape)

(** val dilate_entry :
    dt -> arr -> z list -> z -> z list -> (z list * z) -> z list **)

let dilate_entry d f p v o e =
  match fixpos extendNearest f.shape (padd p (fst e)) with
  | Some q0 ->
    let i = ravel f.shape q0 in
    let nval = dadd d v (snd e) in
    if Z.gtb nval (nthZ Z0 o i) then updZ o i nval else o
  | None -> o

(** val dilate_step : dt -> arr -> arr -> z list -> z list -> z list **)

let dilate_step d f bc o p =
  let v = aget f p in
  if Z.eqb v (dmin d)
  then o
  else fold_left (dilate_entry d f p v) (entries (is_bool d) bc) o

(** val dilate_generic : dt -> arr -> arr -> z list **)

let dilate_generic d f bc =
  fold_left (dilate_step d f bc) (all_positions f.shape)
    (repeat (dmin d) (Z.to_nat (size0 f.shape)))

(** val satd : dt -> z -> z **)

let satd d x =
  Z.max (dmin d) (Z.min (dmax d) x)

(** val height : dt -> z -> z **)

let height d h =
  if is_bool d then Z0 else h

(** val in_se : dt -> z -> bool **)

let in_se d h =
  negb (Z.eqb h (dmin d))

(** val support : dt -> arr -> (z list * z) list **)

let support d bc =
  filter (fun e -> in_se d (snd e)) (entries false bc)

(** val erode_spec : dt -> arr -> arr -> z list -> z **)

let erode_spec d f bc p =
  minl (dmax d)
    (map (fun e ->
      satd d
        (Z.sub (aget f (clampos f.shape (padd p (fst e)))) (height d (snd e))))
      (support d bc))

(** val dilate_spec : dt -> arr -> arr -> z list -> z **)

let dilate_spec d f bc p =
  maxl (dmin d)
    (map (fun e ->
      let v = aget f (clampos f.shape (psub p (fst e))) in
      if Z.eqb v (dmin d) then dmin d else satd d (Z.add v (height d (snd e))))
      (support d bc))

(** val erode_spec_all : dt -> arr -> arr -> z list **)

let erode_spec_all d f bc =
  map (erode_spec d f bc) (all_positions f.shape)

(** val dilate_spec_all : dt -> arr -> arr -> z list **)

let dilate_spec_all d f bc =
  map (dilate_spec d f bc) (all_positions f.shape)

(** val nbh_inside : dt -> arr -> arr -> z list -> bool **)

let nbh_inside d f bc p =
  forallb (fun e ->
    (&&) (in_shapeb f.shape (psub p (fst e)))
      (in_shapeb f.shape (padd p (fst e)))) (support d bc)

(** val mk : arr -> z list -> arr **)

let mk f x =
  { shape = f.shape; data = x }

(** val pmin : z list -> z list -> z list **)

let pmin a b =
  map (fun ab -> Z.min (fst ab) (snd ab)) (combine a b)

(** val pmax : z list -> z list -> z list **)

let pmax a b =
  map (fun ab -> Z.max (fst ab) (snd ab)) (combine a b)

(** val mh_open : dt -> arr -> arr -> z list **)

let mh_open d f bc =
  dilate_generic d (mk f (erode_generic d f bc)) bc

(** val mh_close : dt -> arr -> arr -> z list **)

let mh_close d f bc =
  erode_generic d (mk f (dilate_generic d f bc)) bc

(** val list_eqb : z list -> z list -> bool **)

let list_eqb a b =
  (&&) (Nat.eqb (length a) (length b))
    (forallb (fun ab -> Z.eqb (fst ab) (snd ab)) (combine a b))

(** val cdilate_loop : dt -> arr -> z list -> arr -> nat -> z list **)

let rec cdilate_loop d f g bc = function
| O -> f.data
| S k ->
  let f' = pmin (dilate_generic d f bc) g in
  if list_eqb f' f.data then f' else cdilate_loop d (mk f f') g bc k

(** val mh_cdilate : dt -> arr -> z list -> arr -> nat -> z list **)

let mh_cdilate d f g bc n0 =
  cdilate_loop d (mk f (pmin f.data g)) g bc n0

(** val mh_cerode : dt -> arr -> z list -> arr -> z list **)

let mh_cerode d f g bc =
  pmax (erode_generic d (mk f (pmax f.data g)) bc) g

(** val subm_d : dt -> z -> z -> z **)

let subm_d d a b =
  match d with
  | DBool -> subm { bits = (Zpos XH); signed = false } a b
  | DInt t -> subm t a b

(** val psubm : dt -> z list -> z list -> z list **)

let psubm d a b =
  map (fun ab -> subm_d d (fst ab) (snd ab)) (combine a b)

(** val mh_tophat_open : dt -> arr -> arr -> z list **)

let mh_tophat_open d f bc =
  psubm d f.data (mh_open d f bc)

(** val mh_tophat_close : dt -> arr -> arr -> z list **)

let mh_tophat_close d f bc =
  psubm d (mh_close d f bc) f.data

(** val conv_at : z -> arr -> arr -> z list -> z **)

let conv_at mode f w p =
  fold_left (fun acc e ->
    match retrieve mode f p (fst e) with
    | Some v -> Z.add acc (Z.mul v (snd e))
    | None -> acc) (entries true w) Z0

(** val convolve_generic : z -> arr -> arr -> z list **)

let convolve_generic mode f w =
  map (conv_at mode f w) (all_positions f.shape)

(** val sample : z -> arr -> z list -> z **)

let sample mode f q0 =
  match border_pos mode f.shape q0 with
  | Some r -> aget f r
  | None -> Z0

(** val conv_spec : z -> arr -> arr -> z list -> z **)

let conv_spec mode f w p =
  sumZ
    (map (fun k ->
      Z.mul (aget w k) (sample mode f (padd p (psub k (centre w.shape)))))
      (all_positions w.shape))

(** val conv_spec_all : z -> arr -> arr -> z list **)

let conv_spec_all mode f w =
  map (conv_spec mode f w) (all_positions f.shape)

(** val dot_interior : z list -> z list -> z -> z -> z **)

let dot_interior row w centre0 x =
  sumZ
    (map (fun j ->
      Z.mul (nthZ Z0 row (Z.sub (Z.add x j) centre0)) (nthZ Z0 w j))
      (zseq Z0 (length w)))

(** val dot_border : z -> z list -> z list -> z -> z -> z **)

let dot_border mode row w centre0 x =
  let n1 = zlen row in
  sumZ
    (map (fun j ->
      let o = fix_offset mode (Z.add x (Z.sub j centre0)) n1 in
      Z.mul (if Z.eqb o border_flag_value then Z0 else nthZ Z0 row o)
        (nthZ Z0 w j)) (zseq Z0 (length w)))

(** val row_fast : z -> z list -> z list -> z list -> z list **)

let row_fast mode row w garbage =
  let n1 = zlen row in
  let nf = zlen w in
  let centre0 = Z.quot nf (Zpos (XO XH)) in
  let out1 =
    if Z.geb centre0 n1
    then garbage
    else fold_left (fun o x -> updZ o x (dot_interior row w centre0 x))
           (zseq centre0 (Z.to_nat (Z.sub (Z.sub n1 centre0) centre0)))
           garbage
  in
  fold_left (fun o x_ ->
    let x =
      if Z.ltb x_ centre0
      then x_
      else Z.sub (Z.sub n1 (Zpos XH)) (Z.sub x_ centre0)
    in
    updZ o x (dot_border mode row w centre0 x))
    (zseq Z0 (Z.to_nat (Z.min (Z.mul (Zpos (XO XH)) centre0) n1))) out1

(** val row_spec : z -> z list -> z list -> z list **)

let row_spec mode row w =
  conv_spec_all mode { shape = ((zlen row) :: []); data = row } { shape =
    ((zlen w) :: []); data = w }

(** val gather : z -> arr -> arr -> z -> z list -> z list **)

let gather mode f bc cval p =
  flat_map (fun e ->
    match retrieve mode f p (fst e) with
    | Some v -> v :: []
    | None -> if Z.eqb mode extendConstant then cval :: [] else [])
    (entries true bc)

(** val insert : z -> z list -> z list **)

let rec insert x l = match l with
| [] -> x :: []
| y :: t -> if Z.leb x y then x :: l else y :: (insert x t)

(** val isort : z list -> z list **)

let rec isort = function
| [] -> []
| x :: t -> insert x (isort t)

(** val rank_at : z -> arr -> arr -> z -> z list -> z option **)

let rank_at mode f bc rank p =
  let n2 = zlen (entries true bc) in
  if (||) (Z.ltb rank Z0) (Z.geb rank n2)
  then None
  else let s = gather mode f bc Z0 p in
       let n0 = zlen s in
       let currank = if Z.eqb n0 n2 then rank else Z.quot (Z.mul n0 rank) n2
       in
       Some (nthZ Z0 (isort s) currank)

(** val rank_filter : z -> arr -> arr -> z -> z list -> z list **)

let rank_filter mode f bc rank garbage =
  map (fun ip ->
    match rank_at mode f bc rank (snd ip) with
    | Some v -> v
    | None -> nthZ Z0 garbage (fst ip))
    (combine (zseq Z0 (Z.to_nat (size0 f.shape))) (all_positions f.shape))

(** val median_rank : arr -> z **)

let median_rank bc =
  Z.div (zlen (filter (fun v -> negb (Z.eqb v Z0)) bc.data)) (Zpos (XO XH))

(** val mean_at : z -> arr -> arr -> z list -> z * z **)

let mean_at mode f bc p =
  fold_left (fun sn e ->
    match retrieve mode f p (fst e) with
    | Some v -> ((Z.add (fst sn) v), (snd sn))
    | None ->
      if Z.eqb mode extendConstant
      then ((Z.add (fst sn) Z0), (snd sn))
      else ((fst sn), (Z.sub (snd sn) (Zpos XH)))) (entries true bc) (Z0,
    (zlen (entries true bc)))

(** val mean_filter : z -> arr -> arr -> (z * z) list **)

let mean_filter mode f bc =
  map (mean_at mode f bc) (all_positions f.shape)

(** val wrapd : dt -> z -> z **)

let wrapd d x =
  match d with
  | DBool -> if Z.eqb x Z0 then Z0 else Zpos XH
  | DInt t -> wrap t x

(** val tm_sample : z -> arr -> z list -> z list -> z option **)

let tm_sample mode f p off =
  match retrieve mode f p off with
  | Some v -> Some v
  | None -> if Z.eqb mode extendConstant then Some Z0 else None

(** val tm_at : dt -> z -> arr -> arr -> z list -> z **)

let tm_at d mode f t p =
  fold_left (fun diff2 e ->
    match tm_sample mode f p (fst e) with
    | Some v ->
      let tj = snd e in
      let delta = wrapd d (if Z.gtb v tj then Z.sub v tj else Z.sub tj v) in
      wrapd d (Z.add diff2 (Z.mul delta delta))
    | None -> diff2) (entries false t) Z0

(** val template_match : dt -> z -> arr -> arr -> z list **)

let template_match d mode f t =
  map (tm_at d mode f t) (all_positions f.shape)

(** val window_eq : arr -> arr -> z -> z -> bool **)

let window_eq f t y x =
  forallb (fun k -> Z.eqb (aget f (padd (y :: (x :: [])) k)) (aget t k))
    (all_positions t.shape)

(** val find2d : arr -> arr -> z list **)

let find2d f t =
  let n0 = nthZ Z0 f.shape Z0 in
  let n1 = nthZ Z0 f.shape (Zpos XH) in
  let t0 = nthZ Z0 t.shape Z0 in
  let t1 = nthZ Z0 t.shape (Zpos XH) in
  map (fun p ->
    let y = nthZ Z0 p Z0 in
    let x = nthZ Z0 p (Zpos XH) in
    if (&&) ((&&) (Z.leb y (Z.sub n0 t0)) (Z.leb x (Z.sub n1 t1)))
         (window_eq f t y x)
    then Zpos XH
    else Z0) (all_positions f.shape)

(** val samples_spec : z -> arr -> arr -> z list -> z list **)

let samples_spec mode f bc p =
  flat_map (fun k ->
    if Z.eqb (aget bc k) Z0
    then []
    else (match border_pos mode f.shape (padd p (psub k (centre bc.shape))) with
          | Some q0 -> (aget f q0) :: []
          | None -> if Z.eqb mode m_constant then Z0 :: [] else []))
    (all_positions bc.shape)

(** val count_lt : z -> z list -> z **)

let count_lt x l =
  zlen (filter (fun y -> Z.ltb y x) l)

(** val count_le : z -> z list -> z **)

let count_le x l =
  zlen (filter (fun y -> Z.leb y x) l)

(** val window_sample : z -> arr -> z list -> z list -> z option **)

let window_sample mode f p off =
  match border_pos mode f.shape (padd p off) with
  | Some q0 -> Some (aget f q0)
  | None -> if Z.eqb mode m_constant then Some Z0 else None

(** val ssd_spec : z -> arr -> arr -> z list -> z **)

let ssd_spec mode f t p =
  sumZ
    (map (fun k ->
      match window_sample mode f p (psub k (centre t.shape)) with
      | Some v -> Z.mul (Z.sub v (aget t k)) (Z.sub v (aget t k))
      | None -> Z0) (all_positions t.shape))

(** val assoc : z -> (z * z) list -> z option **)

let rec assoc k = function
| [] -> None
| p :: t -> let (a, b) = p in if Z.eqb a k then Some b else assoc k t

(** val renum_go : (z * z) list -> z -> z list -> z list * z **)

let rec renum_go seen next = function
| [] -> ([], (Z.sub next (Zpos XH)))
| v :: t ->
  (match assoc v seen with
   | Some n0 -> let r = renum_go seen next t in ((n0 :: (fst r)), (snd r))
   | None ->
     let r = renum_go ((v, next) :: seen) (Z.add next (Zpos XH)) t in
     ((next :: (fst r)), (snd r)))

(** val renumber : z -> z list -> z list * z **)

let renumber bg l =
  renum_go ((bg, Z0) :: []) (Zpos XH) l

(** val get : z -> (z * z) list -> z **)

let get k m =
  match assoc k m with
  | Some n0 -> n0
  | None -> Zneg XH

(** val fstep : (z -> z -> z) -> z -> z list -> (z * z) -> z list **)

let fstep f maxlabel res al =
  let l = snd al in
  if (&&) (Z.leb Z0 l) (Z.ltb l maxlabel)
  then updZ res l (f (fst al) (nthZ Z0 res l))
  else res

(** val foldl_labeled :
    (z -> z -> z) -> z -> z -> z list -> z list -> z list **)

let foldl_labeled f start maxlabel arr0 lab =
  fold_left (fstep f maxlabel) (combine arr0 lab)
    (repeat start (Z.to_nat maxlabel))

(** val f_sum : ity option -> z -> z -> z **)

let f_sum t a r =
  match t with
  | Some ty -> wrap ty (Z.add a r)
  | None -> Z.add a r

(** val f_max : z -> z -> z **)

let f_max a r =
  if Z.ltb a r then r else a

(** val f_min : z -> z -> z **)

let f_min a r =
  if negb (Z.ltb r a) then a else r

(** val labeled_sum : ity option -> z -> z list -> z list -> z list **)

let labeled_sum t maxlabel arr0 lab =
  foldl_labeled (f_sum t) Z0 maxlabel arr0 lab

(** val labeled_max : z -> z -> z list -> z list -> z list **)

let labeled_max start maxlabel arr0 lab =
  foldl_labeled f_max start maxlabel arr0 lab

(** val labeled_min : z -> z -> z list -> z list -> z list **)

let labeled_min start maxlabel arr0 lab =
  foldl_labeled f_min start maxlabel arr0 lab

(** val region : z -> z list -> z list -> z list **)

let region k arr0 lab =
  map fst (filter (fun al -> Z.eqb (snd al) k) (combine arr0 lab))

(** val relabel : z list -> z list * z **)

let relabel l =
  renumber Z0 l

(** val same_go : (z * z) list -> (z * z) list -> z list -> z list -> bool **)

let rec same_go index rindex a b =
  match a with
  | [] -> true
  | x :: a' ->
    (match b with
     | [] -> true
     | y :: b' ->
       let index' =
         match assoc x index with
         | Some _ -> index
         | None -> (x, y) :: index
       in
       let rindex' =
         match assoc y rindex with
         | Some _ -> rindex
         | None -> (y, x) :: rindex
       in
       if (&&) (Z.eqb (get x index') y) (Z.eqb (get y rindex') x)
       then same_go index' rindex' a' b'
       else false)

(** val is_same_labeling : z list -> z list -> bool **)

let is_same_labeling a b =
  same_go ((Z0, Z0) :: []) ((Z0, Z0) :: []) a b

(** val same_labeling_spec : z list -> z list -> bool **)

let same_labeling_spec a b =
  forallb (fun pq ->
    let (x, y) = fst pq in
    let (x', y') = snd pq in
    (&&) (eqb (Z.eqb x x') (Z.eqb y y')) (eqb (Z.eqb x Z0) (Z.eqb y Z0)))
    (list_prod (combine a b) (combine a b))

(** val remove_regions : z list -> z list -> z list **)

let remove_regions lab regions =
  map (fun v ->
    if (&&) (negb (Z.eqb v Z0)) (existsb (Z.eqb v) regions) then Z0 else v)
    lab

(** val borders_at : z -> arr -> arr -> z list -> bool **)

let borders_at mode f bc p =
  existsb (fun e ->
    match retrieve mode f p (fst e) with
    | Some v -> negb (Z.eqb v (aget f p))
    | None -> false) (entries true bc)

(** val borders : z -> arr -> arr -> z list **)

let borders mode f bc =
  map (fun p -> if borders_at mode f bc p then Zpos XH else Z0)
    (all_positions f.shape)

(** val border_at : arr -> arr -> z -> z -> z list -> bool **)

let border_at f bc i j p =
  let cur = aget f p in
  let other =
    if Z.eqb cur i then Some j else if Z.eqb cur j then Some i else None
  in
  (match other with
   | Some o ->
     existsb (fun e ->
       match retrieve extendConstant f p (fst e) with
       | Some v -> Z.eqb v o
       | None -> false) (entries true bc)
   | None -> false)

(** val border : arr -> arr -> z -> z -> z list **)

let border f bc i j =
  map (fun p -> if border_at f bc i j p then Zpos XH else Z0)
    (all_positions f.shape)

(** val borders_spec : z -> arr -> arr -> z list -> bool **)

let borders_spec mode f bc p =
  existsb (fun k ->
    (&&) (negb (Z.eqb (aget bc k) Z0))
      (match border_pos mode f.shape (padd p (psub k (centre bc.shape))) with
       | Some q0 -> negb (Z.eqb (aget f q0) (aget f p))
       | None -> false)) (all_positions bc.shape)

(** val upd_ext : z list -> z list -> z list **)

let rec upd_ext ext0 pos =
  match ext0 with
  | [] -> ext0
  | lo :: l ->
    (match l with
     | [] -> ext0
     | hi :: r ->
       (match pos with
        | [] -> ext0
        | p :: q0 ->
          (Z.min lo p) :: ((Z.max hi (Z.add p (Zpos XH))) :: (upd_ext r q0))))

(** val ext_init : z list -> z list **)

let ext_init sh =
  flat_map (fun d -> d :: (Z0 :: [])) sh

(** val bbox_scan : arr -> z list **)

let bbox_scan f =
  fold_left (fun ext0 p ->
    if Z.eqb (aget f p) Z0 then ext0 else upd_ext ext0 p)
    (all_positions f.shape) (ext_init f.shape)

(** val bbox_generic : arr -> z list **)

let bbox_generic f =
  let e = bbox_scan f in
  if Z.eqb (nthZ Z0 e (Zpos XH)) Z0 then map (fun _ -> Z0) e else e

(** val bbox2_row : nat -> z list -> z -> z -> z -> z list -> z list **)

let rec bbox2_row fuel row y x n1 e =
  match fuel with
  | O -> e
  | S k ->
    if Z.ltb x n1
    then if Z.eqb (nthZ Z0 row x) Z0
         then bbox2_row k row y (Z.add x (Zpos XH)) n1 e
         else let e1 =
                (Z.min (nthZ Z0 e Z0) y) :: ((Z.max (nthZ Z0 e (Zpos XH))
                                               (Z.add y (Zpos XH))) :: (
                (Z.min (nthZ Z0 e (Zpos (XO XH))) x) :: ((nthZ Z0 e (Zpos (XI
                                                           XH))) :: [])))
              in
              if Z.ltb (Z.add x (Zpos XH)) (nthZ Z0 e (Zpos (XI XH)))
              then bbox2_row k row y
                     (Z.add
                       (Z.add x
                         (Z.sub (Z.sub (nthZ Z0 e (Zpos (XI XH))) x) (Zpos
                           XH))) (Zpos XH)) n1 e1
              else bbox2_row k row y (Z.add x (Zpos XH)) n1
                     ((nthZ Z0 e1 Z0) :: ((nthZ Z0 e1 (Zpos XH)) :: (
                     (nthZ Z0 e1 (Zpos (XO XH))) :: ((Z.add x (Zpos XH)) :: []))))
    else e

(** val rows_of : nat -> nat -> z list -> z list list **)

let rec rows_of n0 w l =
  match n0 with
  | O -> []
  | S k -> (firstn w l) :: (rows_of k w (skipn w l))

(** val bbox_fast2 : arr -> z list **)

let bbox_fast2 f =
  let n0 = nthZ Z0 f.shape Z0 in
  let n1 = nthZ Z0 f.shape (Zpos XH) in
  let e =
    snd
      (fold_left (fun ye row -> ((Z.add (fst ye) (Zpos XH)),
        (bbox2_row (S (Z.to_nat n1)) row (fst ye) Z0 n1 (snd ye))))
        (rows_of (Z.to_nat n0) (Z.to_nat n1) f.data) (Z0,
        (n0 :: (Z0 :: (n1 :: (Z0 :: []))))))
  in
  if Z.eqb (nthZ Z0 e (Zpos XH)) Z0
  then Z0 :: (Z0 :: (Z0 :: (Z0 :: [])))
  else e

(** val nz_positions : arr -> z list list **)

let nz_positions f =
  filter (fun p -> negb (Z.eqb (aget f p) Z0)) (all_positions f.shape)

(** val bbox_spec : arr -> z list **)

let bbox_spec f =
  match nz_positions f with
  | [] -> flat_map (fun _ -> Z0 :: (Z0 :: [])) f.shape
  | l :: l0 ->
    let ps = l :: l0 in
    flat_map (fun j ->
      (minl (nthZ Z0 f.shape j) (map (fun p -> nthZ Z0 p j) ps)) :: (
      (maxl Z0 (map (fun p -> Z.add (nthZ Z0 p j) (Zpos XH)) ps)) :: []))
      (zseq Z0 (length f.shape))

(** val bbox_labeled_spec : arr -> z -> z list list **)

let bbox_labeled_spec f n0 =
  map (fun l ->
    bbox_spec { shape = f.shape; data =
      (map (fun v -> if Z.eqb v l then Zpos XH else Z0) f.data) })
    (zseq Z0 (Z.to_nat (Z.add n0 (Zpos XH))))

(** val fullhistogram : z list -> z list **)

let fullhistogram l =
  foldl_labeled (fun _ r -> Z.add r (Zpos XH)) Z0
    (Z.add (maxl Z0 l) (Zpos XH)) l l

(** val count_eq : z -> z list -> z **)

let count_eq v l =
  zlen (filter (Z.eqb v) l)

(** val com_sums : arr -> z list -> z -> z * z list **)

let com_sums f lab l =
  fold_left (fun acc ip ->
    let (i, p) = ip in
    if Z.eqb (nthZ Z0 lab i) l
    then ((Z.add (fst acc) (aget f p)),
           (map (fun sc -> Z.add (fst sc) (Z.mul (aget f p) (snd sc)))
             (combine (snd acc) p)))
    else acc)
    (combine (zseq Z0 (Z.to_nat (size0 f.shape))) (all_positions f.shape))
    (Z0, (map (fun _ -> Z0) f.shape))

(** val lbb_update : z list list -> z -> z list -> z list list **)

let lbb_update rows l p =
  if Z.ltb l Z0 then rows else updZ rows l (upd_ext (nthZ [] rows l) p)

(** val lbb_scan : arr -> z -> z list list **)

let lbb_scan f n0 =
  fold_left (fun rows p -> lbb_update rows (aget f p) p)
    (all_positions f.shape)
    (repeat (ext_init f.shape) (Z.to_nat (Z.add n0 (Zpos XH))))

(** val bbox_labeled : arr -> z -> z list list **)

let bbox_labeled f n0 =
  map (fun e ->
    if Z.eqb (nthZ Z0 e (Zpos XH)) Z0 then map (fun _ -> Z0) e else e)
    (lbb_scan f n0)

(** val qf_join : z list -> z -> z -> z list **)

let qf_join cls i j =
  let ci = nthZ Z0 cls i in
  let cj = nthZ Z0 cls j in map (fun c -> if Z.eqb c ci then cj else c) cls

(** val label_pairs : arr -> arr -> (z * z) list **)

let label_pairs f bc =
  flat_map (fun p ->
    if Z.eqb (aget f p) Z0
    then []
    else flat_map (fun e ->
           match fixpos extendConstant f.shape (padd p (fst e)) with
           | Some q0 ->
             if Z.eqb (aget f q0) Z0
             then []
             else ((ravel f.shape p), (ravel f.shape q0)) :: []
           | None -> []) (entries true bc)) (all_positions f.shape)

(** val init_classes : arr -> z list **)

let init_classes f =
  map (fun i -> if Z.eqb (nthZ Z0 f.data i) Z0 then Zneg XH else i)
    (zseq Z0 (length f.data))

(** val label_classes : arr -> arr -> z list **)

let label_classes f bc =
  fold_left (fun cls ij -> qf_join cls (fst ij) (snd ij)) (label_pairs f bc)
    (init_classes f)

(** val label : arr -> arr -> z list * z **)

let label f bc =
  renumber (Zneg XH) (label_classes f bc)

(** val remove_centre : arr -> arr **)

let remove_centre bc =
  { shape = bc.shape; data =
    (updZ bc.data (ravel bc.shape (centre bc.shape)) Z0) }

(** val better : bool -> z -> z -> bool **)

let better is_min v cur =
  if is_min then Z.ltb v cur else Z.gtb v cur

(** val locmm_at : bool -> arr -> arr -> z list -> bool **)

let locmm_at is_min f bc p =
  forallb (fun e -> negb (better is_min (getn f p (fst e)) (aget f p)))
    (entries true bc)

(** val locmm : bool -> arr -> arr -> z list **)

let locmm is_min f bc =
  map (fun p ->
    if locmm_at is_min f (remove_centre bc) p then Zpos XH else Z0)
    (all_positions f.shape)

(** val locmm_spec : bool -> arr -> arr -> z list -> bool **)

let locmm_spec is_min f bc p =
  forallb (fun k ->
    (||) ((||) (Z.eqb (aget bc k) Z0) (list_eqb k (centre bc.shape)))
      (negb
        (better is_min
          (aget f (clampos f.shape (padd p (psub k (centre bc.shape)))))
          (aget f p)))) (all_positions bc.shape)

(** val nbr_offsets : arr -> z list list **)

let nbr_offsets bc =
  map fst (entries true (remove_centre bc))

(** val flood_unmark :
    nat -> z list -> z list list -> z list -> z list list -> z list **)

let rec flood_unmark fuel sh offs marks stack =
  match fuel with
  | O -> marks
  | S k ->
    (match stack with
     | [] -> marks
     | p :: rest ->
       let (marks', stack') =
         fold_left (fun ms off ->
           let np = padd p off in
           if (&&) (in_shapeb sh np)
                (negb (Z.eqb (nthZ Z0 (fst ms) (ravel sh np)) Z0))
           then ((updZ (fst ms) (ravel sh np) Z0), (np :: (snd ms)))
           else ms) offs (marks, rest)
       in
       flood_unmark k sh offs marks' stack')

(** val weakly_better : bool -> z -> z -> bool **)

let weakly_better is_min v cur =
  if is_min then Z.leb v cur else Z.geb v cur

(** val regmm_step :
    bool -> arr -> z list list -> z list -> z list -> z list **)

let regmm_step is_min f offs marks p =
  let sh = f.shape in
  if Z.eqb (nthZ Z0 marks (ravel sh p)) Z0
  then marks
  else if existsb (fun off ->
            let np = padd p off in
            (&&)
              ((&&) (in_shapeb sh np)
                (Z.eqb (nthZ Z0 marks (ravel sh np)) Z0))
              (weakly_better is_min (aget f np) (aget f p))) offs
       then flood_unmark (add (mul (S (S O)) (length marks)) (S (S O))) sh
              offs (updZ marks (ravel sh p) Z0) (p :: [])
       else marks

(** val regmm : bool -> arr -> arr -> z list **)

let regmm is_min f bc =
  fold_left (regmm_step is_min f (nbr_offsets bc)) (all_positions f.shape)
    (locmm is_min f bc)

(** val inimg_nbrs : arr -> z list list -> z list -> z list list **)

let inimg_nbrs f offs p =
  filter (in_shapeb f.shape) (map (padd p) offs)

(** val plateau_pairs : arr -> z list list -> (z * z) list **)

let plateau_pairs f offs =
  flat_map (fun p ->
    flat_map (fun q0 ->
      if Z.eqb (aget f q0) (aget f p)
      then ((ravel f.shape p), (ravel f.shape q0)) :: []
      else []) (inimg_nbrs f offs p)) (all_positions f.shape)

(** val plateau_classes : arr -> z list list -> z list **)

let plateau_classes f offs =
  fold_left (fun cls ij -> qf_join cls (fst ij) (snd ij))
    (plateau_pairs f offs) (zseq Z0 (length f.data))

(** val regmm_spec : bool -> arr -> arr -> z list **)

let regmm_spec is_min f bc =
  let offs = nbr_offsets bc in
  let cls = plateau_classes f offs in
  let ok = fun q0 ->
    forallb (fun r -> negb (better is_min (aget f r) (aget f q0)))
      (inimg_nbrs f offs q0)
  in
  map (fun p ->
    if forallb (fun q0 ->
         (||)
           (negb
             (Z.eqb (nthZ Z0 cls (ravel f.shape q0))
               (nthZ Z0 cls (ravel f.shape p)))) (ok q0))
         (all_positions f.shape)
    then Zpos XH
    else Z0) (all_positions f.shape)

(** val flood_mark :
    nat -> arr -> z list list -> z list -> z list list -> z list **)

let rec flood_mark fuel ref offs marks stack =
  match fuel with
  | O -> marks
  | S k ->
    (match stack with
     | [] -> marks
     | p :: rest ->
       let sh = ref.shape in
       let (marks', stack') =
         fold_left (fun ms off ->
           let np = padd p off in
           if (&&) ((&&) (in_shapeb sh np) (Z.eqb (aget ref np) Z0))
                (Z.eqb (nthZ Z0 (fst ms) (ravel sh np)) Z0)
           then ((updZ (fst ms) (ravel sh np) (Zpos XH)), (np :: (snd ms)))
           else ms) offs (marks, rest)
       in
       flood_mark k ref offs marks' stack')

(** val on_border : z list -> z list -> bool **)

let on_border sh p =
  existsb (fun dp ->
    (||) (Z.eqb (snd dp) Z0) (Z.eqb (snd dp) (Z.sub (fst dp) (Zpos XH))))
    (combine sh p)

(** val close_holes : arr -> arr -> z list **)

let close_holes ref bc =
  let sh = ref.shape in
  let seeds =
    filter (fun p -> (&&) (on_border sh p) (Z.eqb (aget ref p) Z0))
      (all_positions sh)
  in
  let marks0 =
    map (fun p ->
      if (&&) (on_border sh p) (Z.eqb (aget ref p) Z0) then Zpos XH else Z0)
      (all_positions sh)
  in
  let marks =
    flood_mark (add (mul (S (S O)) (length ref.data)) (S (S O))) ref
      (map fst (entries true (remove_centre bc))) marks0 seeds
  in
  map (fun m -> if Z.eqb m Z0 then Zpos XH else Z0) marks

(** val bg_pairs : arr -> z list list -> (z * z) list **)

let bg_pairs ref offs =
  flat_map (fun p ->
    if Z.eqb (aget ref p) Z0
    then flat_map (fun q0 ->
           if Z.eqb (aget ref q0) Z0
           then ((ravel ref.shape p), (ravel ref.shape q0)) :: []
           else []) (inimg_nbrs ref offs p)
    else []) (all_positions ref.shape)

(** val close_holes_spec : arr -> arr -> z list **)

let close_holes_spec ref bc =
  let sh = ref.shape in
  let offs = map fst (entries true (remove_centre bc)) in
  let cls =
    fold_left (fun c ij -> qf_join c (fst ij) (snd ij)) (bg_pairs ref offs)
      (zseq Z0 (length ref.data))
  in
  let border_bg =
    filter (fun p -> (&&) (on_border sh p) (Z.eqb (aget ref p) Z0))
      (all_positions sh)
  in
  map (fun p ->
    if (&&) (Z.eqb (aget ref p) Z0)
         (existsb (fun b ->
           Z.eqb (nthZ Z0 cls (ravel sh b)) (nthZ Z0 cls (ravel sh p)))
           border_bg)
    then Z0
    else Zpos XH) (all_positions sh)

(** val margin_ok : z -> z -> z -> bool **)

let margin_ok dim b x =
  (&&) (Z.leb (Z.quot b (Zpos (XO XH))) x)
    (Z.leb (Z.quot b (Zpos (XO XH))) (Z.sub (Z.sub dim x) (Zpos XH)))

(** val hm_inside : z list -> z list -> z list -> bool **)

let rec hm_inside sh bsh p =
  match sh with
  | [] -> true
  | d :: sh' ->
    (match sh' with
     | [] ->
       (match bsh with
        | [] -> true
        | b :: bsh' ->
          (match bsh' with
           | [] ->
             (match p with
              | [] -> true
              | x :: p' ->
                (match p' with
                 | [] ->
                   (&&)
                     ((&&) (margin_ok d b (Z.quot b (Zpos (XO XH))))
                       (Z.leb (Z.quot b (Zpos (XO XH))) x))
                     (Z.leb x (Z.sub (Z.add (Z.quot b (Zpos (XO XH))) d) b))
                 | _ :: _ -> (&&) (margin_ok d b x) (hm_inside sh' bsh' p')))
           | _ :: _ ->
             (match p with
              | [] -> true
              | x :: p' -> (&&) (margin_ok d b x) (hm_inside sh' bsh' p'))))
     | _ :: _ ->
       (match bsh with
        | [] -> true
        | b :: bsh' ->
          (match p with
           | [] -> true
           | x :: p' -> (&&) (margin_ok d b x) (hm_inside sh' bsh' p'))))

(** val hm_match : arr -> arr -> z list -> bool **)

let hm_match f t p =
  forallb (fun k ->
    (||) (Z.eqb (aget t k) (Zpos (XO XH)))
      (Z.eqb (aget f (padd p (psub k (centre t.shape)))) (aget t k)))
    (all_positions t.shape)

(** val hitmiss : arr -> arr -> z list **)

let hitmiss f t =
  map (fun p ->
    if (&&) (hm_inside f.shape t.shape p) (hm_match f t p)
    then Zpos XH
    else Z0) (all_positions f.shape)

(** val template_inside : arr -> arr -> z list -> bool **)

let template_inside f t p =
  forallb (fun k -> in_shapeb f.shape (padd p (psub k (centre t.shape))))
    (all_positions t.shape)

(** val hitmiss_spec : arr -> arr -> z list **)

let hitmiss_spec f t =
  map (fun p ->
    if (&&) (template_inside f t p) (hm_match f t p) then Zpos XH else Z0)
    (all_positions f.shape)

type qe = { q_cost : z; q_idx : z; q_pos : z; q_margin : z }

(** val qe_lt : qe -> qe -> bool **)

let qe_lt a b =
  markerinfo_lt a.q_cost a.q_idx b.q_cost b.q_idx

(** val q_top : qe list -> qe option **)

let q_top = function
| [] -> None
| e :: r ->
  Some (fold_left (fun best x -> if qe_lt best x then x else best) r e)

(** val q_remove : z -> qe list -> qe list **)

let rec q_remove i = function
| [] -> []
| e :: r -> if Z.eqb e.q_idx i then r else e :: (q_remove i r)

type nb = { nb_delta : z; nb_step : z; nb_dpos : z list }

(** val cheb : z list -> z **)

let cheb p =
  fold_left (fun m x -> Z.max (Z.abs x) m) p Z0

(** val ws_neighbours : z list -> arr -> nb list **)

let ws_neighbours sh bc =
  flat_map (fun k ->
    if Z.eqb (aget bc k) Z0
    then []
    else let np = psub k (centre bc.shape) in
         let delta = ravel sh np in
         if Z.eqb delta Z0
         then []
         else { nb_delta = delta; nb_step = (cheb np); nb_dpos = np } :: [])
    (all_positions bc.shape)

(** val ws_neighbours_all : z list -> arr -> nb list **)

let ws_neighbours_all sh bc =
  flat_map (fun k ->
    if Z.eqb (aget bc k) Z0
    then []
    else let np = psub k (centre bc.shape) in
         if forallb (Z.eqb Z0) np
         then []
         else { nb_delta = (ravel sh np); nb_step = (cheb np); nb_dpos =
                np } :: []) (all_positions bc.shape)

(** val big : z **)

let big =
  Z.pow (Zpos (XO XH)) (Zpos (XO (XI (XI (XI (XI XH))))))

(** val margin_of : z list -> z list -> z **)

let margin_of sh pos =
  fold_left (fun m dp ->
    let (d, p) = dp in
    let m1 = if Z.ltb p m then p else m in
    let r = Z.sub (Z.sub d p) (Zpos XH) in if Z.ltb r m1 then r else m1)
    (combine sh pos) big

type resolver = z list -> z -> z -> nb -> (z * z) option * z

(** val resolve_margin : resolver **)

let resolve_margin sh pos margin n0 =
  let npos = Z.add pos n0.nb_delta in
  let nmargin = Z.sub margin n0.nb_step in
  if Z.ltb nmargin Z0
  then let long_pos = padd (unravel sh pos) n0.nb_dpos in
       let nm = margin_of sh long_pos in
       if Z.ltb nm Z0
       then (None, margin)
       else ((Some (npos, nm)),
              (if Z.gtb (Z.sub nm n0.nb_step) margin
               then Z.sub nm n0.nb_step
               else margin))
  else ((Some (npos, nmargin)), margin)

(** val resolve_checked : resolver **)

let resolve_checked sh pos margin n0 =
  let long_pos = padd (unravel sh pos) n0.nb_dpos in
  if in_shapeb sh long_pos
  then ((Some ((ravel sh long_pos), Z0)), margin)
  else (None, margin)

type wstate = { w_res : z list; w_lines : z list; w_status : z list;
                w_queue : qe list; w_idx : z }

(** val wHITE : z **)

let wHITE =
  Z0

(** val gREY : z **)

let gREY =
  Zpos XH

(** val bLACK : z **)

let bLACK =
  Zpos (XO XH)

(** val ws_visit : z list -> bool -> z -> wstate -> (z * z) -> wstate **)

let ws_visit surf want_lines from st = function
| (npos, nmargin) ->
  let s = nthZ Z0 st.w_status npos in
  if Z.eqb s wHITE
  then { w_res = (updZ st.w_res npos (nthZ Z0 st.w_res from)); w_lines =
         st.w_lines; w_status = (updZ st.w_status npos gREY); w_queue =
         ({ q_cost = (nthZ Z0 surf npos); q_idx = st.w_idx; q_pos = npos;
         q_margin = nmargin } :: st.w_queue); w_idx =
         (Z.add st.w_idx (Zpos XH)) }
  else if Z.eqb s gREY
       then if (&&) want_lines
                 (negb
                   (Z.eqb (nthZ Z0 st.w_res from) (nthZ Z0 st.w_res npos)))
            then { w_res = st.w_res; w_lines =
                   (updZ st.w_lines npos (Zpos XH)); w_status = st.w_status;
                   w_queue = st.w_queue; w_idx = st.w_idx }
            else st
       else st

(** val ws_pop :
    resolver -> z list -> nb list -> z list -> bool -> qe -> wstate -> wstate **)

let ws_pop r sh nbs surf want_lines next st =
  let st1 = { w_res = st.w_res; w_lines = st.w_lines; w_status =
    (updZ st.w_status next.q_pos bLACK); w_queue =
    (q_remove next.q_idx st.w_queue); w_idx = st.w_idx }
  in
  fst
    (fold_left (fun sm n0 ->
      let (tgt, m') = r sh next.q_pos (snd sm) n0 in
      (match tgt with
       | Some t -> ((ws_visit surf want_lines next.q_pos (fst sm) t), m')
       | None -> ((fst sm), m'))) nbs (st1, next.q_margin))

(** val ws_loop :
    resolver -> nat -> z list -> nb list -> z list -> bool -> wstate -> wstate **)

let rec ws_loop r fuel sh nbs surf want_lines st =
  match fuel with
  | O -> st
  | S k ->
    (match q_top st.w_queue with
     | Some next ->
       ws_loop r k sh nbs surf want_lines
         (ws_pop r sh nbs surf want_lines next st)
     | None -> st)

(** val ws_init : z list -> z list -> z list -> z list -> z list -> wstate **)

let ws_init sh surf markers res0 lines0 =
  fold_left (fun st im ->
    let (i, m) = im in
    if Z.eqb m Z0
    then st
    else { w_res = (updZ st.w_res i m); w_lines = st.w_lines; w_status =
           (updZ st.w_status i gREY); w_queue = ({ q_cost = (nthZ Z0 surf i);
           q_idx = st.w_idx; q_pos = i; q_margin =
           (margin_of sh (unravel sh i)) } :: st.w_queue); w_idx =
           (Z.add st.w_idx (Zpos XH)) })
    (combine (zseq Z0 (length markers)) markers) { w_res = res0; w_lines =
    lines0; w_status = (repeat wHITE (length markers)); w_queue = []; w_idx =
    Z0 }

(** val ws_run :
    resolver -> (z list -> arr -> nb list) -> arr -> arr -> arr -> bool -> z
    list -> z list -> z list * z list **)

let ws_run r nB surf markers bc want_lines res0 lines0 =
  let sh = surf.shape in
  let st =
    ws_loop r (S (length surf.data)) sh (nB sh bc) surf.data want_lines
      (ws_init sh surf.data markers.data res0 lines0)
  in
  (st.w_res, st.w_lines)

(** val cwatershed : arr -> arr -> arr -> bool -> z list * z list **)

let cwatershed surf markers bc want_lines =
  let z0 = repeat Z0 (length surf.data) in
  ws_run resolve_margin ws_neighbours surf markers bc want_lines z0 z0

(** val flood_spec : arr -> arr -> arr -> bool -> z list * z list **)

let flood_spec surf markers bc want_lines =
  let z0 = repeat Z0 (length surf.data) in
  ws_run resolve_checked ws_neighbours_all surf markers bc want_lines z0 z0

type ext =
| NegInf
| Fin of z * z

(** val ext_lt_frac : ext -> z -> z -> bool **)

let ext_lt_frac z0 a b =
  match z0 with
  | NegInf -> true
  | Fin (c, d) -> Z.ltb (Z.mul c b) (Z.mul a d)

(** val ext_lt_int : ext -> z -> bool **)

let ext_lt_int z0 q0 =
  match z0 with
  | NegInf -> true
  | Fin (c, d) -> Z.ltb c (Z.mul q0 d)

(** val hull_pop : z list -> z -> (z * ext) list -> (z * ext) list **)

let rec hull_pop f q0 hull = match hull with
| [] -> (q0, NegInf) :: []
| p :: rest ->
  let (vk, zk) = p in
  let num =
    Z.sub (Z.add (nthZ Z0 f q0) (Z.mul q0 q0))
      (Z.add (nthZ Z0 f vk) (Z.mul vk vk))
  in
  let den = Z.mul (Zpos (XO XH)) (Z.sub q0 vk) in
  if ext_lt_frac zk num den
  then (q0, (Fin (num, den))) :: hull
  else hull_pop f q0 rest

(** val build_hull : z list -> (z * ext) list **)

let build_hull f =
  fold_left (fun h q0 -> hull_pop f q0 h)
    (zseq (Zpos XH) (sub (length f) (S O))) ((Z0, NegInf) :: [])

(** val sweep_adv : nat -> z -> (z * ext) list -> (z * ext) list **)

let rec sweep_adv fuel q0 h =
  match fuel with
  | O -> h
  | S n0 ->
    (match h with
     | [] -> h
     | _ :: t ->
       (match t with
        | [] -> h
        | p :: _ ->
          let (_, z1) = p in if ext_lt_int z1 q0 then sweep_adv n0 q0 t else h))

(** val dt1d_with_origin : z list -> (z * z) list **)

let dt1d_with_origin f = match f with
| [] -> []
| _ :: _ ->
  let hull = rev (build_hull f) in
  snd
    (fold_left (fun st q0 ->
      let h = sweep_adv (length f) q0 (fst st) in
      let vk = match h with
               | [] -> Z0
               | p :: _ -> let (v, _) = p in v in
      (h,
      (app (snd st)
        (((Z.add (Z.mul (Z.sub q0 vk) (Z.sub q0 vk)) (nthZ Z0 f vk)),
        vk) :: [])))) (zseq Z0 (length f)) (hull, []))

(** val dt1d : z list -> z list **)

let dt1d f =
  map fst (dt1d_with_origin f)

(** val lmin : z list -> z **)

let lmin = function
| [] -> Z0
| x :: t -> fold_left Z.min t x

(** val minplus1d : z list -> z list **)

let minplus1d f =
  map (fun q0 ->
    lmin
      (map (fun p -> Z.add (Z.mul (Z.sub q0 p) (Z.sub q0 p)) (nthZ Z0 f p))
        (zseq Z0 (length f)))) (zseq Z0 (length f))

(** val line0 : z -> z -> z list -> z -> z list **)

let line0 d sz dat j =
  map (fun i -> nthZ Z0 dat (Z.add (Z.mul i sz) j)) (zseq Z0 (Z.to_nat d))

(** val pass_axis0 : (z list -> z list) -> z -> z -> z list -> z list **)

let pass_axis0 t1 d sz dat =
  flat_map (fun i ->
    map (fun j -> nthZ Z0 (t1 (line0 d sz dat j)) i) (zseq Z0 (Z.to_nat sz)))
    (zseq Z0 (Z.to_nat d))

(** val block : z -> z -> z list -> z list **)

let block sz i dat =
  firstn (Z.to_nat sz) (skipn (Z.to_nat (Z.mul i sz)) dat)

(** val dt_nd : (z list -> z list) -> z list -> z list -> z list **)

let rec dt_nd t1 sh dat =
  match sh with
  | [] -> dat
  | d :: r ->
    let sz = size0 r in
    let g = pass_axis0 t1 d sz dat in
    flat_map (fun i -> dt_nd t1 r (block sz i g)) (zseq Z0 (Z.to_nat d))

(** val dist_inf : z list -> z **)

let dist_inf sh =
  Z.add (Z.mul (zlen sh) (Z.mul (maxl Z0 sh) (maxl Z0 sh))) (Zpos XH)

(** val dist_init : arr -> z list **)

let dist_init a =
  map (fun v -> if Z.eqb v Z0 then Z0 else dist_inf a.shape) a.data

(** val distance : arr -> z list **)

let distance a =
  dt_nd dt1d a.shape (dist_init a)

(** val sqdist : z list -> z list -> z **)

let sqdist p q0 =
  sumZ
    (map (fun ab ->
      Z.mul (Z.sub (fst ab) (snd ab)) (Z.sub (fst ab) (snd ab)))
      (combine p q0))

(** val distance_spec : arr -> z list **)

let distance_spec a =
  let bg = filter (fun q0 -> Z.eqb (aget a q0) Z0) (all_positions a.shape) in
  map (fun p ->
    match bg with
    | [] -> dist_inf a.shape
    | _ :: _ -> lmin (map (sqdist p) bg)) (all_positions a.shape)

(** val line0o : z -> z -> (z * z) list -> z -> (z * z) list **)

let line0o d sz dat j =
  map (fun i -> nthZ (Z0, Z0) dat (Z.add (Z.mul i sz) j))
    (zseq Z0 (Z.to_nat d))

(** val t1o : (z * z) list -> (z * z) list **)

let t1o l =
  map (fun dv -> ((fst dv), (snd (nthZ (Z0, Z0) l (snd dv)))))
    (dt1d_with_origin (map fst l))

(** val pass_axis0o : z -> z -> (z * z) list -> (z * z) list **)

let pass_axis0o d sz dat =
  flat_map (fun i ->
    map (fun j -> nthZ (Z0, Z0) (t1o (line0o d sz dat j)) i)
      (zseq Z0 (Z.to_nat sz))) (zseq Z0 (Z.to_nat d))

(** val blocko : z -> z -> (z * z) list -> (z * z) list **)

let blocko sz i dat =
  firstn (Z.to_nat sz) (skipn (Z.to_nat (Z.mul i sz)) dat)

(** val dt_ndo : z list -> (z * z) list -> (z * z) list **)

let rec dt_ndo sh dat =
  match sh with
  | [] -> dat
  | d :: r ->
    let sz = size0 r in
    let g = pass_axis0o d sz dat in
    flat_map (fun i -> dt_ndo r (blocko sz i g)) (zseq Z0 (Z.to_nat d))

(** val gvoronoi : arr -> z list **)

let gvoronoi lab =
  let f =
    map (fun v -> if Z.eqb v Z0 then dist_inf lab.shape else Z0) lab.data
  in
  let o = dt_ndo lab.shape (combine f (zseq Z0 (length f))) in
  map (fun vo -> nthZ Z0 lab.data (snd vo)) o

(** val qabs : q -> q **)

let qabs x =
  let { qnum = n0; qden = d } = x in { qnum = (Z.abs n0); qden = d }

(** val qmin : q -> q -> q **)

let qmin =
  gmin qcompare

(** val qltb : q -> q -> bool **)

let qltb a b =
  Z.ltb (Z.mul a.qnum (Zpos b.qden)) (Z.mul b.qnum (Zpos a.qden))

(** val zq : z -> q **)

let zq =
  inject_Z

(** val prefix_sums : z -> z list -> z list **)

let rec prefix_sums acc = function
| [] -> []
| x :: t -> (Z.add acc x) :: (prefix_sums (Z.add acc x) t)

type ostate = { o_muB : q; o_muO : q; o_best : q; o_bestT : z; o_stop : bool }

(** val otsu_step : z list -> z list -> z list -> ostate -> z -> ostate **)

let otsu_step hist nB nO s t =
  if s.o_stop
  then s
  else if Z.eqb (nthZ Z0 nB t) Z0
       then s
       else if Z.eqb (nthZ Z0 nO t) Z0
            then { o_muB = s.o_muB; o_muO = s.o_muO; o_best = s.o_best;
                   o_bestT = s.o_bestT; o_stop = true }
            else let hT = nthZ Z0 hist t in
                 let nBT = nthZ Z0 nB t in
                 let nBp = nthZ Z0 nB (Z.sub t (Zpos XH)) in
                 let nOT = nthZ Z0 nO t in
                 let nOp = nthZ Z0 nO (Z.sub t (Zpos XH)) in
                 let thT = Z.mul t hT in
                 let muB =
                   qred
                     (qdiv (qplus (qmult s.o_muB (zq nBp)) (zq thT)) (zq nBT))
                 in
                 let muO =
                   qred
                     (qdiv (qminus (qmult s.o_muO (zq nOp)) (zq thT))
                       (zq nOT))
                 in
                 let sigma =
                   qred
                     (qmult
                       (qmult (qmult (zq nBT) (zq nOT)) (qminus muB muO))
                       (qminus muB muO))
                 in
                 if qltb s.o_best sigma
                 then { o_muB = muB; o_muO = muO; o_best = sigma; o_bestT =
                        t; o_stop = false }
                 else { o_muB = muB; o_muO = muO; o_best = s.o_best;
                        o_bestT = s.o_bestT; o_stop = false }

(** val weighted : z list -> z **)

let weighted l =
  sumZ
    (map (fun iv -> Z.mul (fst iv) (snd iv)) (combine (zseq Z0 (length l)) l))

(** val otsu : z list -> z **)

let otsu hist =
  let n0 = zlen hist in
  if Z.leb n0 (Zpos XH)
  then Z0
  else let hsum = sumZ (tl hist) in
       if Z.eqb hsum Z0
       then Z0
       else let nB = prefix_sums Z0 hist in
            let tot = nthZ Z0 nB (Z.sub n0 (Zpos XH)) in
            let nO = map (fun b -> Z.sub tot b) nB in
            let muO = qdiv (zq (weighted hist)) (zq hsum) in
            let nB0 = nthZ Z0 nB Z0 in
            let nO0 = nthZ Z0 nO Z0 in
            let best =
              qmult
                (qmult (qmult (zq nB0) (zq nO0))
                  (qminus { qnum = Z0; qden = XH } muO))
                (qminus { qnum = Z0; qden = XH } muO)
            in
            (fold_left (otsu_step hist nB nO)
              (zseq (Zpos XH) (sub (length hist) (S O))) { o_muB = { qnum =
              Z0; qden = XH }; o_muO = muO; o_best = best; o_bestT = Z0;
              o_stop = false }).o_bestT

(** val cnt_le : z list -> z -> z **)

let cnt_le hist t =
  sumZ (firstn (Z.to_nat (Z.add t (Zpos XH))) hist)

(** val sum_le : z list -> z -> z **)

let sum_le hist t =
  weighted (firstn (Z.to_nat (Z.add t (Zpos XH))) hist)

(** val sigma_spec : z list -> z -> q **)

let sigma_spec hist t =
  let nB = cnt_le hist t in
  let nO = Z.sub (sumZ hist) nB in
  let sB = sum_le hist t in
  let sO = Z.sub (weighted hist) sB in
  if (||) (Z.eqb nB Z0) (Z.eqb nO Z0)
  then { qnum = Z0; qden = XH }
  else qmult
         (qmult (qmult (zq nB) (zq nO))
           (qminus (qdiv (zq sB) (zq nB)) (qdiv (zq sO) (zq nO))))
         (qminus (qdiv (zq sB) (zq nB)) (qdiv (zq sO) (zq nO)))

(** val otsu_spec : z list -> z **)

let otsu_spec hist =
  fst
    (fold_left (fun bt t ->
      if qltb (snd bt) (sigma_spec hist t)
      then (t, (sigma_spec hist t))
      else bt) (zseq (Zpos XH) (sub (length hist) (S O))) (Z0,
      (sigma_spec hist Z0)))

(** val cnt_gt : z list -> z -> z **)

let cnt_gt hist t =
  Z.sub (sumZ hist) (cnt_le hist t)

(** val sum_gt : z list -> z -> z **)

let sum_gt hist t =
  Z.sub (weighted hist) (sum_le hist t)

(** val rc_mid : z list -> z -> q **)

let rc_mid hist t =
  qdiv
    (qplus (qdiv (zq (sum_le hist t)) (zq (cnt_le hist t)))
      (qdiv (zq (sum_gt hist t)) (zq (cnt_gt hist t)))) (zq (Zpos (XO XH)))

(** val last_nonzero : z list -> z -> z -> z **)

let rec last_nonzero l i best =
  match l with
  | [] -> best
  | x :: t ->
    last_nonzero t (Z.add i (Zpos XH)) (if Z.eqb x Z0 then best else i)

(** val rc_loop : nat -> z list -> z -> q -> z -> q **)

let rec rc_loop fuel hist maxt res t =
  match fuel with
  | O -> res
  | S k ->
    if qltb (zq t) (qmin (zq maxt) res)
    then let res' =
           if (||) (Z.eqb (cnt_le hist t) Z0) (Z.eqb (cnt_gt hist t) Z0)
           then res
           else rc_mid hist t
         in
         rc_loop k hist maxt res' (Z.add t (Zpos XH))
    else res

(** val rc : z list -> q **)

let rc hist =
  let maxt = last_nonzero hist Z0 Z0 in
  rc_loop (length hist) hist maxt (zq maxt) Z0

(** val thin_elems : ((z * z) * bool) list list **)

let thin_elems =
  ((((Zneg XH), (Zneg XH)), false) :: ((((Zneg XH), Z0), false) :: ((((Zneg
    XH), (Zpos XH)), false) :: ((((Zpos XH), (Zneg XH)), true) :: ((((Zpos
    XH), Z0), true) :: ((((Zpos XH), (Zpos XH)),
    true) :: [])))))) :: (((((Zneg XH), Z0), false) :: ((((Zneg XH), (Zpos
    XH)), false) :: (((Z0, (Zpos XH)), false) :: (((Z0, (Zneg XH)),
    true) :: ((((Zpos XH), (Zneg XH)), true) :: ((((Zpos XH), Z0),
    true) :: [])))))) :: (((((Zneg XH), (Zneg XH)), true) :: (((Z0, (Zneg
    XH)), true) :: ((((Zpos XH), (Zneg XH)), true) :: ((((Zneg XH), (Zpos
    XH)), false) :: (((Z0, (Zpos XH)), false) :: ((((Zpos XH), (Zpos XH)),
    false) :: [])))))) :: (((((Zneg XH), (Zneg XH)), true) :: ((((Zneg XH),
    Z0), true) :: (((Z0, (Zneg XH)), true) :: (((Z0, (Zpos XH)),
    false) :: ((((Zpos XH), Z0), false) :: ((((Zpos XH), (Zpos XH)),
    false) :: [])))))) :: (((((Zneg XH), (Zneg XH)), true) :: ((((Zneg XH),
    Z0), true) :: ((((Zneg XH), (Zpos XH)), true) :: ((((Zpos XH), (Zneg
    XH)), false) :: ((((Zpos XH), Z0), false) :: ((((Zpos XH), (Zpos XH)),
    false) :: [])))))) :: (((((Zneg XH), Z0), true) :: ((((Zneg XH), (Zpos
    XH)), true) :: (((Z0, (Zpos XH)), true) :: (((Z0, (Zneg XH)),
    false) :: ((((Zpos XH), (Zneg XH)), false) :: ((((Zpos XH), Z0),
    false) :: [])))))) :: (((((Zneg XH), (Zneg XH)), false) :: ((((Zneg XH),
    Z0), false) :: (((Z0, (Zneg XH)), false) :: (((Z0, (Zpos XH)),
    true) :: ((((Zpos XH), Z0), true) :: ((((Zpos XH), (Zpos XH)),
    true) :: [])))))) :: (((((Zneg XH), (Zneg XH)), false) :: (((Z0, (Zneg
    XH)), false) :: ((((Zpos XH), (Zneg XH)), false) :: ((((Zneg XH), (Zpos
    XH)), true) :: (((Z0, (Zpos XH)), true) :: ((((Zpos XH), (Zpos XH)),
    true) :: [])))))) :: [])))))))

(** val euler_lookup4_x4 : z list **)

let euler_lookup4_x4 =
  Z0 :: ((Zpos XH) :: ((Zpos XH) :: (Z0 :: ((Zpos XH) :: (Z0 :: ((Zpos (XO
    XH)) :: ((Zneg XH) :: ((Zpos XH) :: ((Zpos (XO XH)) :: (Z0 :: ((Zneg
    XH) :: (Z0 :: ((Zneg XH) :: ((Zneg XH) :: (Z0 :: [])))))))))))))))

(** val euler_lookup8_x4 : z list **)

let euler_lookup8_x4 =
  Z0 :: ((Zpos XH) :: ((Zpos XH) :: (Z0 :: ((Zpos XH) :: (Z0 :: ((Zneg (XO
    XH)) :: ((Zneg XH) :: ((Zpos XH) :: ((Zneg (XO XH)) :: (Z0 :: ((Zneg
    XH) :: (Z0 :: ((Zneg XH) :: ((Zneg XH) :: (Z0 :: [])))))))))))))))

(** val euler_powers : z list list **)

let euler_powers =
  ((Zpos XH) :: ((Zpos (XO XH)) :: [])) :: (((Zpos (XO (XO XH))) :: ((Zpos
    (XO (XO (XO XH)))) :: [])) :: [])

(** val daubechies_tables : q list list **)

let daubechies_tables =
  ({ qnum = (Zpos XH); qden = XH } :: ({ qnum = (Zpos XH); qden =
    XH } :: [])) :: (({ qnum = (Zpos (XI (XI (XI (XI (XO (XI (XO (XO (XO (XO
    (XO (XI (XI (XI (XO (XO (XO (XO (XO (XI (XO (XI
    XH))))))))))))))))))))))); qden = (XO (XO (XO (XO (XO (XO (XO (XI (XO (XI
    (XI (XO (XI (XO (XO (XI (XO (XO (XO (XI (XI (XO (XO
    XH))))))))))))))))))))))) } :: ({ qnum = (Zpos (XI (XI (XI (XI (XO (XI
    (XI (XO (XI (XI (XO (XO (XO (XO (XO (XI (XO (XO (XI (XO (XI (XI (XO
    XH)))))))))))))))))))))))); qden = (XO (XO (XO (XO (XO (XO (XO (XI (XO
    (XI (XI (XO (XI (XO (XO (XI (XO (XO (XO (XI (XI (XO (XO
    XH))))))))))))))))))))))) } :: ({ qnum = (Zpos (XI (XO (XO (XO (XI (XO
    (XI (XO (XO (XI (XI (XI (XI (XO (XI (XO (XO (XO (XO (XO (XI
    XH)))))))))))))))))))))); qden = (XO (XO (XO (XO (XO (XO (XO (XI (XO (XI
    (XI (XO (XI (XO (XO (XI (XO (XO (XO (XI (XI (XO (XO
    XH))))))))))))))))))))))) } :: ({ qnum = (Zneg (XI (XI (XI (XI (XO (XI
    (XI (XI (XO (XO (XI (XI (XO (XI (XI (XI (XI (XI (XO (XI
    XH))))))))))))))))))))); qden = (XO (XO (XO (XO (XO (XO (XO (XI (XO (XI
    (XI (XO (XI (XO (XO (XI (XO (XO (XO (XI (XI (XO (XO
    XH))))))))))))))))))))))) } :: [])))) :: (({ qnum = (Zpos (XI (XO (XO (XO
    (XO (XO (XI (XO (XO (XO (XO (XO (XO (XI (XI (XI (XI (XO (XI (XI (XO (XO
    (XI (XI (XO XH)))))))))))))))))))))))))); qden = (XO (XO (XO (XO (XO (XO
    (XO (XO (XI (XO (XO (XO (XO (XI (XI (XI (XI (XO (XI (XO (XI (XI (XI (XI
    (XI (XO XH)))))))))))))))))))))))))) } :: ({ qnum = (Zpos (XI (XI (XO (XO
    (XI (XI (XO (XO (XI (XO (XI (XI (XO (XO (XI (XO (XI (XI (XO (XO (XI (XI
    (XO (XI XH))))))))))))))))))))))))); qden = (XO (XO (XO (XO (XO (XO (XI
    (XO (XO (XO (XO (XI (XI (XI (XI (XO (XI (XO (XI (XI (XI (XI (XI (XO
    XH)))))))))))))))))))))))) } :: ({ qnum = (Zpos (XI (XO (XO (XI (XI (XO
    (XO (XO (XO (XO (XI (XI (XI (XI (XI (XI XH))))))))))))))))); qden = (XO
    (XO (XO (XO (XO (XO (XI (XO (XI (XO (XI (XI (XO (XO (XO (XO (XI
    XH))))))))))))))))) } :: ({ qnum = (Zneg (XI (XO (XO (XO (XO (XI (XI (XI
    (XI (XI (XO (XI (XO (XI (XO (XI (XI (XO (XO (XO (XI (XO (XO
    XH)))))))))))))))))))))))); qden = (XO (XO (XO (XO (XO (XO (XO (XI (XO
    (XO (XO (XO (XI (XI (XI (XI (XO (XI (XO (XI (XI (XI (XI (XI (XO
    XH))))))))))))))))))))))))) } :: ({ qnum = (Zneg (XI (XO (XI (XO (XI (XO
    (XO (XO (XO (XO (XO (XO (XO (XI (XI (XO (XO (XO (XO (XI (XI (XI (XO
    XH)))))))))))))))))))))))); qden = (XO (XO (XO (XO (XO (XO (XO (XO (XI
    (XO (XO (XO (XO (XI (XI (XI (XI (XO (XI (XO (XI (XI (XI (XI (XI (XO
    XH)))))))))))))))))))))))))) } :: ({ qnum = (Zpos (XI (XI (XI (XO (XI (XO
    (XI (XI (XI (XO (XI (XI (XO (XO XH))))))))))))))); qden = (XO (XO (XO (XO
    (XO (XO (XO (XI (XO (XI (XO (XI (XI (XO (XO (XO (XO (XI
    XH)))))))))))))))))) } :: [])))))) :: (({ qnum = (Zpos (XI (XI (XI (XO
    (XI (XI (XI (XI (XO (XI (XO (XO (XO (XI (XO (XO (XI (XO (XO (XO (XI (XI
    (XI (XI XH))))))))))))))))))))))))); qden = (XO (XO (XO (XO (XO (XO (XO
    (XO (XI (XO (XO (XO (XO (XI (XI (XI (XI (XO (XI (XO (XI (XI (XI (XI (XI
    (XO XH)))))))))))))))))))))))))) } :: ({ qnum = (Zpos (XI (XI (XO (XI (XO
    (XI (XO (XO (XI (XO (XI (XO (XO (XI (XO (XI (XI (XO (XO (XO (XO (XO (XO
    (XI XH))))))))))))))))))))))))); qden = (XO (XO (XO (XO (XO (XO (XI (XO
    (XO (XO (XO (XI (XI (XI (XI (XO (XI (XO (XI (XI (XI (XI (XI (XO
    XH)))))))))))))))))))))))) } :: ({ qnum = (Zpos (XI (XI (XI (XI (XO (XO
    (XI (XI (XI (XO (XO (XO (XI (XO (XO (XO (XO (XO (XI (XO (XO (XO
    XH))))))))))))))))))))))); qden = (XO (XO (XO (XO (XO (XO (XI (XO (XI (XI
    (XO (XI (XO (XO (XI (XO (XO (XO (XI (XI (XO (XO
    XH)))))))))))))))))))))) } :: ({ qnum = (Zneg (XI (XI (XI (XI (XI (XI (XI
    (XI (XO (XI (XO (XO (XO (XI (XI (XO (XO (XO (XI (XI (XI
    XH)))))))))))))))))))))); qden = (XO (XO (XO (XO (XO (XO (XO (XO (XI (XO
    (XO (XO (XO (XI (XI (XI (XI (XO (XI (XO (XI (XI (XI (XI (XI (XO
    XH)))))))))))))))))))))))))) } :: ({ qnum = (Zneg (XI (XO (XI (XI (XI (XO
    (XO (XO (XI (XI (XO (XI (XI (XO (XO (XI (XI (XI (XO (XO (XI (XO (XO (XI
    XH))))))))))))))))))))))))); qden = (XO (XO (XO (XO (XO (XO (XO (XO (XI
    (XO (XO (XO (XO (XI (XI (XI (XI (XO (XI (XO (XI (XI (XI (XI (XI (XO
    XH)))))))))))))))))))))))))) } :: ({ qnum = (Zpos (XI (XI (XO (XO (XO (XO
    (XI (XI (XI (XI (XI (XO (XO (XI (XO (XI (XO (XI XH)))))))))))))))))));
    qden = (XO (XO (XO (XO (XO (XO (XO (XI (XO (XI (XI (XO (XI (XO (XO (XI
    (XO (XO (XO (XI (XI (XO (XO XH))))))))))))))))))))))) } :: ({ qnum =
    (Zpos (XI (XI (XO (XO (XO (XI (XO (XO (XO (XI (XI (XO (XO (XO (XI (XI
    XH))))))))))))))))); qden = (XO (XO (XO (XO (XO (XI (XO (XI (XI (XO (XI
    (XO (XO (XI (XO (XO (XO (XI (XI (XO (XO
    XH))))))))))))))))))))) } :: ({ qnum = (Zneg (XI (XI (XO (XI (XO (XO (XI
    (XO (XO (XI (XI (XI (XI (XO (XI (XI (XO (XI (XI (XO
    XH))))))))))))))))))))); qden = (XO (XO (XO (XO (XO (XO (XO (XO (XI (XO
    (XO (XO (XO (XI (XI (XI (XI (XO (XI (XO (XI (XI (XI (XI (XI (XO
    XH)))))))))))))))))))))))))) } :: [])))))))) :: (({ qnum = (Zpos (XI (XO
    (XI (XO (XI (XI (XI (XO (XO (XI (XI (XI (XI (XI (XO (XI (XO (XO (XI (XI
    (XO (XI (XO XH)))))))))))))))))))))))); qden = (XO (XO (XO (XO (XO (XO
    (XO (XI (XO (XO (XO (XO (XI (XI (XI (XI (XO (XI (XO (XI (XI (XI (XI (XI
    (XO XH))))))))))))))))))))))))) } :: ({ qnum = (Zpos (XI (XO (XO (XI (XI
    (XO (XI (XI (XI (XO (XO (XO (XO (XO (XO (XI (XI (XI (XO (XI (XO (XO (XO
    (XI (XO XH)))))))))))))))))))))))))); qden = (XO (XO (XO (XO (XO (XO (XO
    (XI (XO (XO (XO (XO (XI (XI (XI (XI (XO (XI (XO (XI (XI (XI (XI (XI (XO
    XH))))))))))))))))))))))))) } :: ({ qnum = (Zpos (XI (XI (XO (XI (XI (XO
    (XI (XI (XI (XI (XI (XI (XI (XI (XI (XO (XI (XO (XI (XI (XO (XO (XO (XO
    (XI XH)))))))))))))))))))))))))); qden = (XO (XO (XO (XO (XO (XO (XO (XI
    (XO (XO (XO (XO (XI (XI (XI (XI (XO (XI (XO (XI (XI (XI (XI (XI (XO
    XH))))))))))))))))))))))))) } :: ({ qnum = (Zpos (XI (XI (XI (XI (XO (XI
    (XI (XI (XO (XI (XI (XO (XI (XO (XI (XO (XI (XO (XI (XO (XO
    XH)))))))))))))))))))))); qden = (XO (XO (XO (XO (XO (XI (XO (XO (XO (XO
    (XI (XI (XI (XI (XO (XI (XO (XI (XI (XI (XI (XI (XO
    XH))))))))))))))))))))))) } :: ({ qnum = (Zneg (XI (XI (XI (XO (XO (XO
    (XI (XO (XO (XI (XO (XI (XI (XO (XI (XI (XO (XI (XO (XI (XO (XO (XO (XO
    (XO XH)))))))))))))))))))))))))); qden = (XO (XO (XO (XO (XO (XO (XO (XO
    (XI (XO (XO (XO (XO (XI (XI (XI (XI (XO (XI (XO (XI (XI (XI (XI (XI (XO
    XH)))))))))))))))))))))))))) } :: ({ qnum = (Zneg (XI (XO (XO (XO (XI (XI
    (XI (XI (XO (XO (XI (XO (XI (XO (XO (XI (XI (XO (XI (XO (XO (XO
    XH))))))))))))))))))))))); qden = (XO (XO (XO (XO (XO (XO (XO (XO (XI (XO
    (XO (XO (XO (XI (XI (XI (XI (XO (XI (XO (XI (XI (XI (XI (XI (XO
    XH)))))))))))))))))))))))))) } :: ({ qnum = (Zpos (XI (XO (XI (XO (XO (XO
    (XO (XI (XO (XI (XO (XI (XI (XI (XI (XO (XI (XO (XO (XO (XO
    XH)))))))))))))))))))))); qden = (XO (XO (XO (XO (XO (XO (XO (XO (XI (XO
    (XI (XI (XO (XI (XO (XO (XI (XO (XO (XO (XI (XI (XO (XO
    XH)))))))))))))))))))))))) } :: ({ qnum = (Zneg (XI (XI (XO (XO (XI (XI
    (XO (XO (XO (XI (XI (XO (XI (XO XH))))))))))))))); qden = (XO (XO (XO (XO
    (XO (XI (XO (XI (XI (XO (XI (XO (XO (XI (XO (XO (XO (XI (XI (XO (XO
    XH))))))))))))))))))))) } :: ({ qnum = (Zneg (XI (XI (XO (XO (XI (XI (XI
    (XI (XI (XO (XI (XO (XO (XI (XO (XO (XI (XI (XO (XI
    XH))))))))))))))))))))); qden = (XO (XO (XO (XO (XO (XO (XO (XO (XI (XO
    (XO (XO (XO (XI (XI (XI (XI (XO (XI (XO (XI (XI (XI (XI (XI (XO
    XH)))))))))))))))))))))))))) } :: ({ qnum = (Zpos (XI (XI (XI (XI (XI (XI
    (XO (XI (XO (XI (XO (XO (XI (XI (XO (XO (XI (XI XH)))))))))))))))))));
    qden = (XO (XO (XO (XO (XO (XO (XO (XO (XI (XO (XO (XO (XO (XI (XI (XI
    (XI (XO (XI (XO (XI (XI (XI (XI (XI (XO
    XH)))))))))))))))))))))))))) } :: [])))))))))) :: (({ qnum = (Zpos (XI
    (XI (XO (XO (XO (XI (XO (XO (XO (XI (XO (XO (XI (XI (XO (XI (XO (XO (XO
    (XO (XI (XI (XI XH)))))))))))))))))))))))); qden = (XO (XO (XO (XO (XO
    (XO (XO (XO (XI (XO (XO (XO (XO (XI (XI (XI (XI (XO (XI (XO (XI (XI (XI
    (XI (XI (XO XH)))))))))))))))))))))))))) } :: ({ qnum = (Zpos (XI (XO (XI
    (XI (XO (XI (XO (XI (XI (XI (XO (XI (XI (XO (XI (XO (XI (XI (XO (XI (XO
    (XI (XO (XO (XO (XO XH))))))))))))))))))))))))))); qden = (XO (XO (XO (XO
    (XO (XO (XO (XO (XI (XO (XO (XO (XO (XI (XI (XI (XI (XO (XI (XO (XI (XI
    (XI (XI (XI (XO XH)))))))))))))))))))))))))) } :: ({ qnum = (Zpos (XI (XO
    (XO (XI (XI (XO (XI (XO (XO (XO (XI (XI (XI (XO (XO (XI (XO (XI (XO (XI
    (XO (XO (XI XH)))))))))))))))))))))))); qden = (XO (XO (XO (XO (XO (XI
    (XO (XO (XO (XO (XI (XI (XI (XI (XO (XI (XO (XI (XI (XI (XI (XI (XO
    XH))))))))))))))))))))))) } :: ({ qnum = (Zpos (XI (XI (XI (XO (XI (XI
    (XO (XO (XO (XI (XO (XO (XI (XO (XO (XO (XO (XI (XO (XI (XO (XI (XO
    XH)))))))))))))))))))))))); qden = (XO (XO (XO (XO (XO (XO (XI (XO (XO
    (XO (XO (XI (XI (XI (XI (XO (XI (XO (XI (XI (XI (XI (XI (XO
    XH)))))))))))))))))))))))) } :: ({ qnum = (Zneg (XI (XO (XI (XI (XI (XI
    (XO (XI (XI (XO (XO (XI (XO (XI (XI (XO (XO (XO (XO (XI
    XH))))))))))))))))))))); qden = (XO (XO (XO (XO (XO (XO (XI (XO (XI (XI
    (XO (XI (XO (XO (XI (XO (XO (XO (XI (XI (XO (XO
    XH)))))))))))))))))))))) } :: ({ qnum = (Zneg (XI (XI (XI (XI (XI (XO (XI
    (XO (XI (XI (XO (XO (XO (XO (XO (XO (XO (XO (XI (XI (XO (XO (XO
    XH)))))))))))))))))))))))); qden = (XO (XO (XO (XO (XO (XO (XO (XI (XO
    (XO (XO (XO (XI (XI (XI (XI (XO (XI (XO (XI (XI (XI (XI (XI (XO
    XH))))))))))))))))))))))))) } :: ({ qnum = (Zpos (XI (XO (XO (XI (XO (XO
    (XO (XI (XO (XI (XI (XO (XO (XI (XI (XO (XO (XI (XO (XO (XI (XO (XI
    XH)))))))))))))))))))))))); qden = (XO (XO (XO (XO (XO (XO (XO (XO (XI
    (XO (XO (XO (XO (XI (XI (XI (XI (XO (XI (XO (XI (XI (XI (XI (XI (XO
    XH)))))))))))))))))))))))))) } :: ({ qnum = (Zpos (XI (XO (XO (XO (XO (XI
    (XI (XO (XO (XO (XI (XO (XO (XI (XI (XO (XI (XI (XO (XI (XI
    XH)))))))))))))))))))))); qden = (XO (XO (XO (XO (XO (XO (XO (XO (XI (XO
    (XO (XO (XO (XI (XI (XI (XI (XO (XI (XO (XI (XI (XI (XI (XI (XO
    XH)))))))))))))))))))))))))) } :: ({ qnum = (Zneg (XI (XI (XO (XO (XI (XO
    (XO (XI (XI (XI (XO (XI (XO (XO (XO XH)))))))))))))))); qden = (XO (XO
    (XO (XO (XO (XO (XO (XO (XI (XO (XI (XO (XI (XI (XO (XO (XO (XO (XI
    XH))))))))))))))))))) } :: ({ qnum = (Zpos (XI (XO (XI (XI (XO (XI (XI
    (XO (XI (XI (XI (XO (XI (XI (XI (XI (XO (XI (XO (XI (XO (XI (XI (XI (XO
    XH)))))))))))))))))))))))))); qden = (XO (XO (XO (XO (XO (XO (XO (XO (XI
    (XO (XO (XO (XI (XO (XI (XO (XO (XI (XO (XI (XO (XO (XI (XO (XI (XO (XI
    (XI (XO (XO (XO (XI (XO (XI (XI
    XH))))))))))))))))))))))))))))))))))) } :: ({ qnum = (Zpos (XI (XI (XI
    (XO (XI (XI (XO (XI (XI (XI (XO (XI (XI (XI (XO (XO (XI (XO (XO (XO (XI
    (XO (XO (XO (XO (XI (XO XH)))))))))))))))))))))))))))); qden = (XO (XO
    (XO (XO (XO (XO (XO (XO (XO (XI (XO (XI (XI (XI (XO (XI (XI (XO (XI (XI
    (XI (XO (XO (XO (XO (XI (XO (XO (XI (XO (XI (XI (XI (XO
    XH)))))))))))))))))))))))))))))))))) } :: ({ qnum = (Zneg (XI (XO (XI (XO
    (XO (XI (XI (XO (XO (XI (XO (XI (XI (XI (XO (XI (XO (XO (XI (XO (XI (XO
    (XO (XO (XI (XO (XO XH)))))))))))))))))))))))))))); qden = (XO (XO (XO
    (XO (XO (XO (XO (XO (XO (XO (XO (XI (XO (XI (XI (XI (XO (XI (XI (XO (XI
    (XI (XI (XO (XO (XO (XO (XI (XO (XO (XI (XO (XI (XI (XI (XO
    XH)))))))))))))))))))))))))))))))))))) } :: [])))))))))))) :: (({ qnum =
    (Zpos (XI (XI (XI (XO (XI (XO (XO (XI (XI (XI (XI (XI (XI (XI (XI (XI (XI
    (XI (XI (XO (XO (XI (XO XH)))))))))))))))))))))))); qden = (XO (XO (XO
    (XO (XO (XO (XO (XO (XI (XO (XO (XO (XO (XI (XI (XI (XI (XO (XI (XO (XI
    (XI (XI (XI (XI (XO XH)))))))))))))))))))))))))) } :: ({ qnum = (Zpos (XI
    (XI (XO (XO (XO (XI (XI (XO (XO (XI (XI (XO (XI (XI (XI (XI (XO (XI (XO
    (XI (XO (XI XH))))))))))))))))))))))); qden = (XO (XO (XO (XO (XO (XI (XO
    (XO (XO (XO (XI (XI (XI (XI (XO (XI (XO (XI (XI (XI (XI (XI (XO
    XH))))))))))))))))))))))) } :: ({ qnum = (Zpos (XI (XO (XO (XO (XO (XI
    (XI (XO (XO (XO (XO (XI (XO (XI (XI (XO (XI (XO (XI (XO (XO (XI (XO (XO
    (XO (XI XH))))))))))))))))))))))))))); qden = (XO (XO (XO (XO (XO (XO (XO
    (XO (XI (XO (XO (XO (XO (XI (XI (XI (XI (XO (XI (XO (XI (XI (XI (XI (XI
    (XO XH)))))))))))))))))))))))))) } :: ({ qnum = (Zpos (XI (XO (XO (XO (XO
    (XO (XO (XI (XI (XI (XO (XI (XO (XI (XI (XI (XI (XI
    XH))))))))))))))))))); qden = (XO (XI (XO (XO (XO (XO (XI (XI (XI (XI (XO
    (XI (XO (XI (XI (XI (XI (XI (XO XH))))))))))))))))))) } :: ({ qnum =
    (Zneg (XI (XI (XO (XI (XO (XO (XI (XI (XO (XO (XI (XO (XO (XO (XI (XO (XI
    (XI (XO (XI (XI (XO (XO XH)))))))))))))))))))))))); qden = (XO (XO (XO
    (XO (XO (XO (XO (XI (XO (XO (XO (XO (XI (XI (XI (XI (XO (XI (XO (XI (XI
    (XI (XI (XI (XO XH))))))))))))))))))))))))) } :: ({ qnum = (Zneg (XI (XO
    (XI (XI (XO (XI (XO (XI (XI (XI (XO (XO (XI (XI (XI (XO (XI (XI (XO (XO
    (XO (XI (XI (XI XH))))))))))))))))))))))))); qden = (XO (XO (XO (XO (XO
    (XO (XO (XO (XI (XO (XO (XO (XO (XI (XI (XI (XI (XO (XI (XO (XI (XI (XI
    (XI (XI (XO XH)))))))))))))))))))))))))) } :: ({ qnum = (Zpos (XI (XI (XO
    (XO (XI (XO (XI (XO (XI (XI (XO (XO (XO (XI (XI (XO (XI (XI (XI
    XH)))))))))))))))))))); qden = (XO (XO (XO (XO (XO (XO (XO (XI (XO (XI
    (XI (XO (XI (XO (XO (XI (XO (XO (XO (XI (XI (XO (XO
    XH))))))))))))))))))))))) } :: ({ qnum = (Zpos (XI (XO (XI (XO (XO (XO
    (XO (XI (XO (XI (XO (XI (XO (XO (XI (XI (XO (XI (XO (XO (XO
    XH)))))))))))))))))))))); qden = (XO (XO (XO (XO (XO (XO (XO (XO (XI (XO
    (XI (XI (XO (XI (XO (XO (XI (XO (XO (XO (XI (XI (XO (XO
    XH)))))))))))))))))))))))) } :: ({ qnum = (Zneg (XI (XO (XO (XO (XO (XO
    (XI (XI (XI (XO (XO (XI (XO (XI (XI (XO (XO (XO (XO (XO
    XH))))))))))))))))))))); qden = (XO (XO (XO (XO (XO (XO (XO (XO (XI (XO
    (XI (XI (XO (XI (XO (XO (XI (XO (XO (XO (XI (XI (XO (XO
    XH)))))))))))))))))))))))) } :: ({ qnum = (Zneg (XI (XO (XI (XI (XI (XO
    (XO (XO (XO (XI (XO (XO (XO (XI (XI (XI (XI (XO (XO (XO
    XH))))))))))))))))))))); qden = (XO (XO (XO (XO (XO (XO (XO (XI (XO (XO
    (XO (XO (XI (XI (XI (XI (XO (XI (XO (XI (XI (XI (XI (XI (XO
    XH))))))))))))))))))))))))) } :: ({ qnum = (Zpos (XI (XI (XO (XO (XO (XO
    (XO (XI (XI (XO (XI (XO (XI (XO (XO (XO (XI (XI (XO (XI
    XH))))))))))))))))))))); qden = (XO (XO (XO (XO (XO (XO (XO (XO (XI (XO
    (XO (XO (XO (XI (XI (XI (XI (XO (XI (XO (XI (XI (XI (XI (XI (XO
    XH)))))))))))))))))))))))))) } :: ({ qnum = (Zpos (XI (XI (XI (XO (XI (XO
    (XO (XO (XI (XO (XI (XI (XI (XI (XI (XI (XI (XO (XI (XI (XI (XI (XO (XO
    (XI (XI XH))))))))))))))))))))))))))); qden = (XO (XO (XO (XO (XO (XO (XO
    (XO (XO (XO (XO (XO (XI (XO (XI (XI (XI (XO (XI (XI (XO (XI (XI (XI (XO
    (XO (XO (XO (XI (XO (XO (XI (XO (XI (XI (XI (XO
    XH))))))))))))))))))))))))))))))))))))) } :: ({ qnum = (Zneg (XI (XO (XO
    (XI (XO (XI (XI (XO (XI (XO (XO (XI (XI (XI (XI (XI (XI (XO (XI (XO (XO
    (XI (XI (XI XH))))))))))))))))))))))))); qden = (XO (XO (XO (XO (XO (XO
    (XO (XO (XI (XO (XI (XI (XI (XO (XI (XI (XO (XI (XI (XI (XO (XO (XO (XO
    (XI (XO (XO (XI (XO (XI (XI (XI (XO
    XH))))))))))))))))))))))))))))))))) } :: ({ qnum = (Zpos (XI (XO (XI (XO
    (XO (XI (XO (XO (XI (XI (XO (XI (XI (XO (XI (XI (XO (XO (XO (XO (XI (XO
    (XI (XI (XI (XO (XI (XI XH))))))))))))))))))))))))))))); qden = (XO (XO
    (XO (XO (XO (XO (XO (XO (XO (XO (XO (XO (XI (XO (XO (XO (XI (XO (XI (XO
    (XO (XI (XO (XI (XO (XO (XI (XO (XI (XO (XI (XI (XO (XO (XO (XI (XO (XI
    (XI
    XH))))))))))))))))))))))))))))))))))))))) } :: [])))))))))))))) :: (({ qnum =
    (Zpos (XI (XO (XI (XO (XO (XI (XI (XO (XO (XI (XI (XO (XI (XI (XO (XI (XO
    (XI (XO (XI (XI XH)))))))))))))))))))))); qden = (XO (XO (XO (XO (XO (XO
    (XO (XI (XO (XO (XO (XO (XI (XI (XI (XI (XO (XI (XO (XI (XI (XI (XI (XI
    (XO XH))))))))))))))))))))))))) } :: ({ qnum = (Zpos (XI (XO (XI (XI (XO
    (XO (XO (XI (XI (XO (XO (XO (XO (XO (XO (XO (XI (XI (XO (XI
    XH))))))))))))))))))))); qden = (XO (XO (XO (XO (XO (XO (XO (XO (XI (XO
    (XO (XI (XO (XO (XO (XO (XI (XO (XI (XI (XI
    XH))))))))))))))))))))) } :: ({ qnum = (Zpos (XI (XI (XO (XI (XI (XO (XI
    (XO (XI (XI (XI (XO (XI (XO (XO (XI (XI (XI (XO (XO (XO (XI (XO (XO
    XH))))))))))))))))))))))))); qden = (XO (XO (XO (XO (XO (XO (XO (XO (XI
    (XO (XI (XI (XO (XI (XO (XO (XI (XO (XO (XO (XI (XI (XO (XO
    XH)))))))))))))))))))))))) } :: ({ qnum = (Zpos (XI (XO (XI (XO (XI (XO
    (XI (XI (XI (XO (XI (XO (XO (XI (XO (XO (XI (XI (XI (XI (XO (XI (XI (XI
    (XO (XO XH))))))))))))))))))))))))))); qden = (XO (XO (XO (XO (XO (XO (XO
    (XO (XI (XO (XO (XO (XO (XI (XI (XI (XI (XO (XI (XO (XI (XI (XI (XI (XI
    (XO XH)))))))))))))))))))))))))) } :: ({ qnum = (Zneg (XI (XI (XI (XO (XI
    (XI (XO (XO (XO (XO (XI (XO (XI (XO (XO (XO (XI (XO (XO (XO
    XH))))))))))))))))))))); qden = (XO (XO (XO (XO (XO (XO (XO (XI (XO (XO
    (XO (XO (XI (XI (XI (XI (XO (XI (XO (XI (XI (XI (XI (XI (XO
    XH))))))))))))))))))))))))) } :: ({ qnum = (Zneg (XI (XI (XI (XO (XO (XI
    (XI (XI (XI (XO (XO (XO (XO (XI (XI (XI (XO (XO (XI (XO (XO (XI (XI (XO
    (XO XH)))))))))))))))))))))))))); qden = (XO (XO (XO (XO (XO (XO (XO (XO
    (XI (XO (XO (XO (XO (XI (XI (XI (XI (XO (XI (XO (XI (XI (XI (XI (XI (XO
    XH)))))))))))))))))))))))))) } :: ({ qnum = (Zpos (XI (XI (XO (XI (XO (XO
    (XI (XO (XI (XO (XI (XO (XI (XI (XI (XI (XO (XO (XI (XO (XI (XI (XI (XI
    (XI (XO (XO XH)))))))))))))))))))))))))))); qden = (XO (XO (XO (XO (XO
    (XO (XO (XO (XO (XO (XI (XO (XO (XO (XI (XO (XI (XO (XO (XI (XO (XI (XO
    (XO (XI (XO (XI (XO (XI (XI (XO (XO (XO (XI (XO (XI (XI
    XH))))))))))))))))))))))))))))))))))))) } :: ({ qnum = (Zpos (XI (XO (XI
    (XO (XO (XI (XI (XI (XO (XO (XI (XO (XI (XI (XI (XO (XI (XO (XI (XO (XO
    (XO XH))))))))))))))))))))))); qden = (XO (XO (XO (XO (XO (XO (XI (XO (XO
    (XO (XO (XI (XI (XI (XI (XO (XI (XO (XI (XI (XI (XI (XI (XO
    XH)))))))))))))))))))))))) } :: ({ qnum = (Zneg (XI (XI (XI (XO (XO (XO
    (XO (XI (XI (XI (XI (XI (XI (XI (XO (XI (XI XH)))))))))))))))))); qden =
    (XO (XO (XO (XO (XO (XO (XO (XI (XO (XI (XI (XO (XI (XO (XO (XI (XO (XO
    (XO (XI (XI (XO (XO XH))))))))))))))))))))))) } :: ({ qnum = (Zneg (XI
    (XO (XI (XI (XO (XO (XO (XI (XI (XI (XO (XO (XO (XI (XO (XO (XI (XI (XI
    (XI (XI (XO XH))))))))))))))))))))))); qden = (XO (XO (XO (XO (XO (XO (XO
    (XO (XI (XO (XO (XO (XO (XI (XI (XI (XI (XO (XI (XO (XI (XI (XI (XI (XI
    (XO XH)))))))))))))))))))))))))) } :: ({ qnum = (Zpos (XI (XI (XI (XO (XI
    (XO (XI (XO (XO (XO (XI (XI (XI XH)))))))))))))); qden = (XO (XI (XO (XO
    (XO (XO (XI (XI (XI (XI (XO (XI (XO (XI (XI (XI (XI (XI (XO
    XH))))))))))))))))))) } :: ({ qnum = (Zpos (XI (XO (XI (XO (XO (XI (XI
    (XI (XI (XI (XI (XO (XI (XI (XO (XI (XO (XO XH))))))))))))))))))); qden =
    (XO (XO (XO (XO (XO (XO (XI (XO (XO (XO (XO (XI (XI (XI (XI (XO (XI (XO
    (XI (XI (XI (XI (XI (XO XH)))))))))))))))))))))))) } :: ({ qnum = (Zneg
    (XI (XI (XO (XI (XO (XI (XO (XI (XI (XO (XO (XI (XO (XI (XI (XI (XO (XI
    (XI (XO (XO (XO (XO (XI (XO (XO (XI (XO XH)))))))))))))))))))))))))))));
    qden = (XO (XO (XO (XO (XO (XO (XO (XO (XO (XO (XI (XO (XI (XI (XI (XO
    (XI (XI (XO (XI (XI (XI (XO (XO (XO (XO (XI (XO (XO (XI (XO (XI (XI (XI
    (XO XH))))))))))))))))))))))))))))))))))) } :: ({ qnum = (Zneg (XI (XO
    (XI (XO (XO (XO (XI (XO (XO (XO (XO (XO (XI (XI (XI (XO (XI (XO (XI (XO
    (XO (XO (XO (XO (XI (XO (XO (XO (XO XH))))))))))))))))))))))))))))));
    qden = (XO (XO (XO (XO (XO (XO (XO (XO (XO (XO (XO (XO (XI (XO (XO (XO
    (XI (XO (XI (XO (XO (XI (XO (XI (XO (XO (XI (XO (XI (XO (XI (XI (XO (XO
    (XO (XI (XO (XI (XI
    XH))))))))))))))))))))))))))))))))))))))) } :: ({ qnum = (Zpos (XI (XI
    (XI (XI (XO (XO (XO (XO (XO (XI (XI (XO (XO (XI (XO (XI (XI (XI (XI (XI
    (XO (XI (XI (XI (XO (XO (XO (XI (XI XH))))))))))))))))))))))))))))));
    qden = (XO (XO (XO (XO (XO (XO (XO (XO (XO (XO (XO (XO (XI (XO (XO (XO
    (XI (XO (XI (XO (XO (XI (XO (XI (XO (XO (XI (XO (XI (XO (XI (XI (XO (XO
    (XO (XI (XO (XI (XI
    XH))))))))))))))))))))))))))))))))))))))) } :: ({ qnum = (Zneg (XI (XO
    (XI (XI (XO (XI (XO (XI (XI (XO (XI (XI (XO (XO (XO (XO (XI (XI (XI (XO
    (XO (XI (XI (XI (XI (XO (XO XH)))))))))))))))))))))))))))); qden = (XO
    (XO (XO (XO (XO (XO (XO (XO (XO (XO (XO (XO (XI (XO (XO (XO (XI (XO (XI
    (XO (XO (XI (XO (XI (XO (XO (XI (XO (XI (XO (XI (XI (XO (XO (XO (XI (XO
    (XI (XI
    XH))))))))))))))))))))))))))))))))))))))) } :: [])))))))))))))))) :: (({ qnum =
    (Zpos (XI (XI (XI (XI (XO (XO (XO (XO (XI (XI (XI (XI (XO (XI (XI (XO (XO
    (XO (XO (XO XH))))))))))))))))))))); qden = (XO (XO (XO (XO (XO (XO (XO
    (XO (XI (XO (XI (XI (XO (XI (XO (XO (XI (XO (XO (XO (XI (XI (XO (XO
    XH)))))))))))))))))))))))) } :: ({ qnum = (Zpos (XI (XI (XI (XO (XI (XO
    (XO (XO (XO (XI (XI (XI (XI (XO (XO (XI (XO (XO (XI (XO (XI
    XH)))))))))))))))))))))); qden = (XO (XO (XO (XO (XO (XO (XO (XI (XO (XI
    (XI (XO (XI (XO (XO (XI (XO (XO (XO (XI (XI (XO (XO
    XH))))))))))))))))))))))) } :: ({ qnum = (Zpos (XI (XO (XI (XI (XI (XO
    (XI (XO (XO (XO (XI (XO (XI (XO (XO (XI (XO (XO (XI (XI (XO (XO (XO (XI
    (XO XH)))))))))))))))))))))))))); qden = (XO (XO (XO (XO (XO (XO (XO (XI
    (XO (XO (XO (XO (XI (XI (XI (XI (XO (XI (XO (XI (XI (XI (XI (XI (XO
    XH))))))))))))))))))))))))) } :: ({ qnum = (Zpos (XI (XI (XO (XI (XO (XO
    (XI (XI (XI (XI (XI (XI (XI (XO (XI (XO (XO (XI (XO (XI (XO (XO (XO (XI
    (XI (XO XH))))))))))))))))))))))))))); qden = (XO (XO (XO (XO (XO (XO (XO
    (XO (XI (XO (XO (XO (XO (XI (XI (XI (XI (XO (XI (XO (XI (XI (XI (XI (XI
    (XO XH)))))))))))))))))))))))))) } :: ({ qnum = (Zpos (XI (XI (XI (XI (XI
    (XO (XI (XO (XO (XO (XI (XI (XI (XI (XI (XO (XI (XO (XO (XI (XI
    XH)))))))))))))))))))))); qden = (XO (XO (XO (XO (XO (XO (XO (XO (XI (XO
    (XI (XI (XO (XI (XO (XO (XI (XO (XO (XO (XI (XI (XO (XO
    XH)))))))))))))))))))))))) } :: ({ qnum = (Zneg (XI (XO (XI (XI (XO (XO
    (XO (XI (XI (XI (XO (XI (XI (XO (XO (XO (XI (XI (XI (XI (XO (XO
    XH))))))))))))))))))))))); qden = (XO (XO (XO (XO (XO (XI (XO (XO (XO (XO
    (XI (XI (XI (XI (XO (XI (XO (XI (XI (XI (XI (XI (XO
    XH))))))))))))))))))))))) } :: ({ qnum = (Zneg (XI (XI (XI (XI (XI (XI
    (XI (XO (XI (XI (XO (XI (XO (XO (XI (XI (XI (XO (XO (XI (XO
    XH)))))))))))))))))))))); qden = (XO (XO (XO (XO (XO (XO (XO (XO (XI (XO
    (XI (XI (XO (XI (XO (XO (XI (XO (XO (XO (XI (XI (XO (XO
    XH)))))))))))))))))))))))) } :: ({ qnum = (Zpos (XI (XO (XO (XI (XI (XI
    (XI (XI (XO (XO (XI (XO (XO (XO (XI (XO (XO (XO (XO (XO (XO (XI (XO
    XH)))))))))))))))))))))))); qden = (XO (XO (XO (XO (XO (XO (XO (XI (XO
    (XO (XO (XO (XI (XI (XI (XI (XO (XI (XO (XI (XI (XI (XI (XI (XO
    XH))))))))))))))))))))))))) } :: ({ qnum = (Zpos (XI (XI (XO (XI (XI (XI
    (XI (XO (XI (XO (XI (XO (XO (XO (XO (XI (XO (XI (XO (XI
    XH))))))))))))))))))))); qden = (XO (XO (XO (XO (XO (XO (XO (XO (XO (XI
    (XO (XI (XI (XO (XI (XO (XO (XI (XO (XO (XO (XI (XI (XO (XO
    XH))))))))))))))))))))))))) } :: ({ qnum = (Zneg (XI (XI (XO (XI (XI (XO
    (XO (XO (XI (XO (XO (XI (XI (XI (XI (XI (XO (XO (XO (XI (XO (XO
    XH))))))))))))))))))))))); qden = (XO (XO (XO (XO (XO (XO (XO (XI (XO (XO
    (XO (XO (XI (XI (XI (XI (XO (XI (XO (XI (XI (XI (XI (XI (XO
    XH))))))))))))))))))))))))) } :: ({ qnum = (Zpos (XI (XO (XI (XI (XO (XO
    (XO (XO (XO (XO (XI (XI (XI (XI (XO (XO (XI (XI (XI (XO (XO (XI (XO (XO
    (XI (XO (XI (XO XH))))))))))))))))))))))))))))); qden = (XO (XO (XO (XO
    (XO (XO (XO (XO (XO (XO (XO (XO (XI (XO (XO (XO (XI (XO (XI (XO (XO (XI
    (XO (XI (XO (XO (XI (XO (XI (XO (XI (XI (XO (XO (XO (XI (XO (XI (XI
    XH))))))))))))))))))))))))))))))))))))))) } :: ({ qnum = (Zpos (XI (XO
    (XO (XO (XI (XI (XO (XO (XI (XO (XO (XO (XO (XO (XI (XO (XO (XO (XO (XO
    (XI XH)))))))))))))))))))))); qden = (XO (XO (XO (XO (XO (XO (XO (XO (XI
    (XO (XO (XO (XO (XI (XI (XI (XI (XO (XI (XO (XI (XI (XI (XI (XI (XO
    XH)))))))))))))))))))))))))) } :: ({ qnum = (Zneg (XI (XI (XI (XO (XO (XI
    (XO (XI (XO (XI (XO (XI (XO (XO (XI (XO (XO (XO (XO (XO (XI (XO (XI (XI
    (XI (XI (XI (XO (XO XH)))))))))))))))))))))))))))))); qden = (XO (XO (XO
    (XO (XO (XO (XO (XO (XO (XO (XO (XI (XO (XI (XI (XI (XO (XI (XI (XO (XI
    (XI (XI (XO (XO (XO (XO (XI (XO (XO (XI (XO (XI (XI (XI (XO
    XH)))))))))))))))))))))))))))))))))))) } :: ({ qnum = (Zneg (XI (XO (XI
    (XI (XI (XI (XI (XO (XI (XO (XO (XO (XI (XO (XO (XI (XI (XI (XO (XI (XO
    (XO (XO (XO (XO (XI (XO (XO XH))))))))))))))))))))))))))))); qden = (XO
    (XO (XO (XO (XO (XO (XO (XO (XO (XO (XI (XO (XI (XI (XI (XO (XI (XI (XO
    (XI (XI (XI (XO (XO (XO (XO (XI (XO (XO (XI (XO (XI (XI (XI (XO
    XH))))))))))))))))))))))))))))))))))) } :: ({ qnum = (Zpos (XI (XI (XO
    (XI (XO (XO (XI (XO (XO (XI (XO (XO (XO (XI (XI (XO (XO (XI (XO (XO (XI
    (XI (XI (XI XH))))))))))))))))))))))))); qden = (XO (XO (XO (XO (XO (XO
    (XO (XO (XI (XO (XI (XI (XI (XO (XI (XI (XO (XI (XI (XI (XO (XO (XO (XO
    (XI (XO (XO (XI (XO (XI (XI (XI (XO
    XH))))))))))))))))))))))))))))))))) } :: ({ qnum = (Zpos (XI (XI (XI (XI
    (XO (XO (XO (XI (XI (XO (XO (XI (XO (XO (XO (XI (XI (XI (XO (XI (XO (XI
    (XI (XO (XI (XI (XO (XO XH))))))))))))))))))))))))))))); qden = (XO (XO
    (XO (XO (XO (XO (XO (XO (XO (XO (XO (XO (XI (XO (XO (XO (XI (XO (XI (XO
    (XO (XI (XO (XI (XO (XO (XI (XO (XI (XO (XI (XI (XO (XO (XO (XI (XO (XI
    (XI XH))))))))))))))))))))))))))))))))))))))) } :: ({ qnum = (Zneg (XI
    (XI (XI (XI (XI (XO (XO (XO (XI (XO (XO (XI (XO (XI (XO (XO (XI (XO (XI
    (XI (XI (XI (XO (XO (XI (XO (XI (XO XH)))))))))))))))))))))))))))));
    qden = (XO (XO (XO (XO (XO (XO (XO (XO (XO (XO (XO (XO (XI (XO (XO (XO
    (XI (XO (XI (XO (XO (XI (XO (XI (XO (XO (XI (XO (XI (XO (XI (XI (XO (XO
    (XO (XI (XO (XI (XI
    XH))))))))))))))))))))))))))))))))))))))) } :: ({ qnum = (Zpos (XI (XO
    (XI (XO (XO (XI (XO (XI (XO (XI (XO (XI (XO (XO (XO (XI (XO (XO (XO (XI
    (XO (XI (XO (XI XH))))))))))))))))))))))))); qden = (XO (XO (XO (XO (XO
    (XO (XO (XO (XO (XO (XO (XI (XO (XO (XO (XI (XO (XI (XO (XO (XI (XO (XI
    (XO (XO (XI (XO (XI (XO (XI (XI (XO (XO (XO (XI (XO (XI (XI
    XH)))))))))))))))))))))))))))))))))))))) } :: [])))))))))))))))))) :: (({ qnum =
    (Zpos (XI (XO (XO (XO (XI (XO (XI (XO (XI (XI (XO (XO (XO (XI (XI (XO (XO
    (XI (XI XH)))))))))))))))))))); qden = (XO (XO (XO (XO (XO (XO (XI (XO
    (XO (XO (XO (XI (XI (XI (XI (XO (XI (XO (XI (XI (XI (XI (XI (XO
    XH)))))))))))))))))))))))) } :: ({ qnum = (Zpos (XI (XO (XI (XI (XI (XI
    (XI (XI (XO (XO (XO (XI (XO (XO (XO (XO (XI (XI (XO (XI (XO (XO (XI
    XH)))))))))))))))))))))))); qden = (XO (XO (XO (XO (XO (XO (XO (XI (XO
    (XO (XO (XO (XI (XI (XI (XI (XO (XI (XO (XI (XI (XI (XI (XI (XO
    XH))))))))))))))))))))))))) } :: ({ qnum = (Zpos (XI (XI (XO (XO (XO (XO
    (XI (XO (XO (XO (XO (XI (XO (XI (XO (XI (XI (XO (XO (XO (XI (XI (XI (XO
    (XO (XO XH))))))))))))))))))))))))))); qden = (XO (XO (XO (XO (XO (XO (XO
    (XO (XI (XO (XO (XO (XO (XI (XI (XI (XI (XO (XI (XO (XI (XI (XI (XI (XI
    (XO XH)))))))))))))))))))))))))) } :: ({ qnum = (Zpos (XI (XI (XO (XI (XI
    (XI (XI (XO (XI (XI (XO (XO (XO (XI (XO (XI (XI (XO (XI (XI (XO (XO (XI
    (XI (XI (XO XH))))))))))))))))))))))))))); qden = (XO (XO (XO (XO (XO (XO
    (XO (XO (XI (XO (XO (XO (XO (XI (XI (XI (XI (XO (XI (XO (XI (XI (XI (XI
    (XI (XO XH)))))))))))))))))))))))))) } :: ({ qnum = (Zpos (XI (XI (XI (XI
    (XI (XO (XO (XI (XI (XI (XI (XI (XI (XO (XI (XO (XI (XI (XI (XI (XO (XI
    (XO (XO XH))))))))))))))))))))))))); qden = (XO (XO (XO (XO (XO (XO (XO
    (XI (XO (XO (XO (XO (XI (XI (XI (XI (XO (XI (XO (XI (XI (XI (XI (XI (XO
    XH))))))))))))))))))))))))) } :: ({ qnum = (Zneg (XI (XO (XO (XI (XI (XO
    (XO (XO (XI (XO (XI (XO (XI (XI (XI (XI (XO (XI (XO (XI
    XH))))))))))))))))))))); qden = (XO (XO (XO (XO (XO (XO (XI (XO (XI (XI
    (XO (XI (XO (XO (XI (XO (XO (XO (XI (XI (XO (XO
    XH)))))))))))))))))))))) } :: ({ qnum = (Zneg (XI (XI (XO (XO (XO (XO (XO
    (XI (XI (XO (XI (XO (XI (XI (XO (XI (XI (XO (XO (XI (XO (XI
    XH))))))))))))))))))))))); qden = (XO (XO (XO (XO (XO (XO (XI (XO (XO (XO
    (XO (XI (XI (XI (XI (XO (XI (XO (XI (XI (XI (XI (XI (XO
    XH)))))))))))))))))))))))) } :: ({ qnum = (Zpos (XI (XO (XI (XO (XI (XI
    (XI (XO (XO (XO (XO (XI (XI (XI (XI (XI (XO (XI (XI (XO (XI
    XH)))))))))))))))))))))); qden = (XO (XO (XO (XO (XO (XO (XO (XO (XI (XO
    (XI (XI (XO (XI (XO (XO (XI (XO (XO (XO (XI (XI (XO (XO
    XH)))))))))))))))))))))))) } :: ({ qnum = (Zpos (XI (XI (XO (XI (XO (XI
    (XI (XO (XI (XI (XI (XI (XO (XO (XI (XI (XO (XO (XO (XI (XO (XO (XI
    XH)))))))))))))))))))))))); qden = (XO (XO (XO (XO (XO (XO (XO (XO (XI
    (XO (XO (XO (XO (XI (XI (XI (XI (XO (XI (XO (XI (XI (XI (XI (XI (XO
    XH)))))))))))))))))))))))))) } :: ({ qnum = (Zneg (XI (XO (XO (XO (XI (XO
    (XO (XO (XO (XO (XO (XO (XI (XO (XO (XO (XO (XI (XO (XI (XI (XO (XO
    XH)))))))))))))))))))))))); qden = (XO (XO (XO (XO (XO (XO (XO (XO (XI
    (XO (XO (XO (XO (XI (XI (XI (XI (XO (XI (XO (XI (XI (XI (XI (XI (XO
    XH)))))))))))))))))))))))))) } :: ({ qnum = (Zneg (XI (XO (XI (XI (XO (XI
    (XI (XI (XO (XI (XO (XI (XO (XO (XO (XI (XO XH)))))))))))))))))); qden =
    (XO (XO (XO (XO (XO (XO (XO (XO (XI (XO (XO (XI (XO (XO (XO (XO (XI (XO
    (XI (XI (XI XH))))))))))))))))))))) } :: ({ qnum = (Zpos (XI (XO (XI (XO
    (XI (XO (XO (XI (XI (XI (XO (XI (XO (XI (XO (XI (XI (XI (XI (XO (XO (XO
    XH))))))))))))))))))))))); qden = (XO (XO (XO (XO (XO (XO (XO (XO (XI (XO
    (XO (XO (XO (XI (XI (XI (XI (XO (XI (XO (XI (XI (XI (XI (XI (XO
    XH)))))))))))))))))))))))))) } :: ({ qnum = (Zpos (XI (XO (XO (XO (XI (XI
    (XO (XO (XO (XI (XI (XO (XO (XI (XO (XI (XO (XI (XI (XO (XO (XI (XI (XO
    (XO (XI (XI (XI XH))))))))))))))))))))))))))))); qden = (XO (XO (XO (XO
    (XO (XO (XO (XO (XO (XO (XO (XI (XO (XI (XI (XI (XO (XI (XI (XO (XI (XI
    (XI (XO (XO (XO (XO (XI (XO (XO (XI (XO (XI (XI (XI (XO
    XH)))))))))))))))))))))))))))))))))))) } :: ({ qnum = (Zneg (XI (XI (XO
    (XI (XO (XO (XI (XO (XI (XI (XO (XI (XI XH)))))))))))))); qden = (XO (XO
    (XO (XO (XO (XO (XI (XO (XO (XI (XO (XO (XO (XO (XI (XO (XI (XI (XI
    XH))))))))))))))))))) } :: ({ qnum = (Zpos (XI (XI (XI (XO (XO (XO (XI
    (XI (XI (XO (XO (XO (XO (XI (XI (XO (XO (XO (XO (XI (XI (XI (XI (XO
    XH))))))))))))))))))))))))); qden = (XO (XO (XO (XO (XO (XO (XO (XO (XI
    (XO (XI (XI (XI (XO (XI (XI (XO (XI (XI (XI (XO (XO (XO (XO (XI (XO (XO
    (XI (XO (XI (XI (XI (XO
    XH))))))))))))))))))))))))))))))))) } :: ({ qnum = (Zpos (XI (XI (XO (XO
    (XI (XO (XI (XI (XO (XI (XO (XO (XI (XI (XI (XO (XI (XI (XO (XI (XO (XO
    (XI (XI (XO (XO (XO (XO XH))))))))))))))))))))))))))))); qden = (XO (XO
    (XO (XO (XO (XO (XO (XO (XO (XO (XO (XI (XO (XI (XI (XI (XO (XI (XI (XO
    (XI (XI (XI (XO (XO (XO (XO (XI (XO (XO (XI (XO (XI (XI (XI (XO
    XH)))))))))))))))))))))))))))))))))))) } :: ({ qnum = (Zneg (XI (XI (XI
    (XI (XO (XI (XO (XO (XO (XO (XO (XO (XO (XO (XI (XO (XO (XI (XI (XI (XO
    XH)))))))))))))))))))))); qden = (XO (XO (XO (XO (XO (XO (XI (XO (XI (XI
    (XI (XO (XI (XI (XO (XI (XI (XI (XO (XO (XO (XO (XI (XO (XO (XI (XO (XI
    (XI (XI (XO XH))))))))))))))))))))))))))))))) } :: ({ qnum = (Zneg (XI
    (XI (XI (XO (XO (XO (XI (XO (XI (XO (XO (XO (XO (XI (XO (XI (XO (XO (XO
    (XI (XO (XI (XI (XI (XO (XO XH))))))))))))))))))))))))))); qden = (XO (XO
    (XO (XO (XO (XO (XO (XO (XO (XO (XO (XI (XO (XO (XO (XI (XO (XI (XO (XO
    (XI (XO (XI (XO (XO (XI (XO (XI (XO (XI (XI (XO (XO (XO (XI (XO (XI (XI
    XH)))))))))))))))))))))))))))))))))))))) } :: ({ qnum = (Zpos (XI (XI (XI
    (XI (XI (XI (XO (XO (XI (XO (XO (XO (XI (XO (XO (XI (XI (XI (XO (XO (XO
    (XI (XI (XI (XI (XI XH))))))))))))))))))))))))))); qden = (XO (XO (XO (XO
    (XO (XO (XO (XO (XO (XO (XO (XO (XI (XO (XO (XO (XI (XO (XI (XO (XO (XI
    (XO (XI (XO (XO (XI (XO (XI (XO (XI (XI (XO (XO (XO (XI (XO (XI (XI
    XH))))))))))))))))))))))))))))))))))))))) } :: ({ qnum = (Zneg (XI (XO
    (XO (XO (XO (XO (XO (XI (XI (XI (XI (XI (XI (XO (XO (XI (XO (XO (XI (XI
    XH))))))))))))))))))))); qden = (XO (XO (XO (XO (XO (XO (XO (XO (XO (XO
    (XO (XI (XO (XI (XI (XI (XO (XI (XI (XO (XI (XI (XI (XO (XO (XO (XO (XI
    (XO (XO (XI (XO (XI (XI (XI (XO
    XH)))))))))))))))))))))))))))))))))))) } :: [])))))))))))))))))))) :: [])))))))))

(** val fgb : arr -> z list -> bool **)

let fgb img p =
  negb (Z.eqb (aget img p) Z0)

(** val tmatch : arr -> ((z * z) * bool) list -> z list -> bool **)

let tmatch img elem p =
  (&&) (fgb img p)
    (forallb (fun e ->
      let (y, v) = e in
      let (dy, dx) = y in eqb v (fgb img (padd p (dy :: (dx :: []))))) elem)

(** val thin_pass : arr -> ((z * z) * bool) list -> arr **)

let thin_pass img elem =
  { shape = img.shape; data =
    (map (fun p -> if tmatch img elem p then Z0 else aget img p)
      (all_positions img.shape)) }

(** val thin_round : arr -> arr **)

let thin_round img =
  fold_left thin_pass thin_elems img

(** val thin_loop : nat -> arr -> arr **)

let rec thin_loop fuel img =
  match fuel with
  | O -> img
  | S k ->
    let img' = thin_round img in
    if list_eqb img'.data img.data then img' else thin_loop k img'

(** val thin : arr -> z list **)

let thin f =
  let bb = bbox_generic f in
  let min0 = nthZ Z0 bb Z0 in
  let max0 = nthZ Z0 bb (Zpos XH) in
  let min1 = nthZ Z0 bb (Zpos (XO XH)) in
  let max1 = nthZ Z0 bb (Zpos (XI XH)) in
  let r = Z.sub max0 min0 in
  let c = Z.sub max1 min1 in
  let esh = (Z.add r (Zpos (XO XH))) :: ((Z.add c (Zpos (XO XH))) :: []) in
  let exp = { shape = esh; data =
    (map (fun p ->
      let y = nthZ Z0 p Z0 in
      let x = nthZ Z0 p (Zpos XH) in
      if (&&)
           ((&&) ((&&) (Z.leb (Zpos XH) y) (Z.leb y r)) (Z.leb (Zpos XH) x))
           (Z.leb x c)
      then if Z.eqb
                (aget f
                  ((Z.sub (Z.add min0 y) (Zpos XH)) :: ((Z.sub (Z.add min1 x)
                                                          (Zpos XH)) :: [])))
                Z0
           then Z0
           else Zpos XH
      else Z0) (all_positions esh)) }
  in
  let res = thin_loop (S (length exp.data)) exp in
  map (fun p ->
    let y = nthZ Z0 p Z0 in
    let x = nthZ Z0 p (Zpos XH) in
    if (&&) ((&&) ((&&) (Z.leb min0 y) (Z.ltb y max0)) (Z.leb min1 x))
         (Z.ltb x max1)
    then aget res
           ((Z.add (Z.sub y min0) (Zpos XH)) :: ((Z.add (Z.sub x min1) (Zpos
                                                   XH)) :: []))
    else Z0) (all_positions f.shape)

(** val pad_br : arr -> arr **)

let pad_br f =
  let h = nthZ Z0 f.shape Z0 in
  let w = nthZ Z0 f.shape (Zpos XH) in
  { shape = ((Z.add h (Zpos XH)) :: ((Z.add w (Zpos XH)) :: [])); data =
  (map (fun p ->
    if (&&) (Z.ltb (nthZ Z0 p Z0) h) (Z.ltb (nthZ Z0 p (Zpos XH)) w)
    then if Z.eqb (aget f p) Z0 then Z0 else Zpos XH
    else Z0)
    (all_positions ((Z.add h (Zpos XH)) :: ((Z.add w (Zpos XH)) :: [])))) }

(** val euler_x4 : bool -> arr -> z **)

let euler_x4 n8 f =
  let g = pad_br f in
  let pw = { shape = ((Zpos (XO XH)) :: ((Zpos (XO XH)) :: [])); data =
    (concat euler_powers) }
  in
  let codes = convolve_generic m_constant g pw in
  sumZ
    (map (fun c ->
      nthZ Z0 (if n8 then euler_lookup8_x4 else euler_lookup4_x4) c) codes)

type pt = z * z

(** val forward_lt : pt -> pt -> bool **)

let forward_lt a b =
  if Z.eqb (fst a) (fst b)
  then Z.ltb (snd a) (snd b)
  else Z.ltb (fst a) (fst b)

(** val reverse_lt : pt -> pt -> bool **)

let reverse_lt a b =
  if Z.eqb (fst a) (fst b)
  then Z.gtb (snd a) (snd b)
  else Z.gtb (fst a) (fst b)

(** val is_left : pt -> pt -> pt -> z **)

let is_left p0 p1 p2 =
  Z.sub (Z.mul (Z.sub (fst p1) (fst p0)) (Z.sub (snd p2) (snd p0)))
    (Z.mul (Z.sub (fst p2) (fst p0)) (Z.sub (snd p1) (snd p0)))

(** val pinsert : (pt -> pt -> bool) -> pt -> pt list -> pt list **)

let rec pinsert lt x l = match l with
| [] -> x :: []
| y :: t -> if lt y x then y :: (pinsert lt x t) else x :: l

(** val psort : (pt -> pt -> bool) -> pt list -> pt list **)

let psort lt l =
  fold_right (pinsert lt) [] l

(** val chain_pop : pt list -> pt -> pt list -> pt list * pt list **)

let rec chain_pop stack p disc =
  match stack with
  | [] -> ([], disc)
  | a :: rest ->
    (match rest with
     | [] -> (stack, disc)
     | b :: _ ->
       if Z.geb (is_left b a p) Z0
       then chain_pop rest p (a :: disc)
       else (stack, disc))

(** val chain_step : (pt list * pt list) -> pt -> pt list * pt list **)

let chain_step sd p =
  let (st, disc) = chain_pop (fst sd) p (snd sd) in ((p :: st), disc)

(** val scan : (pt -> pt -> bool) -> pt list -> pt list * pt list **)

let scan lt pts =
  match psort lt pts with
  | [] -> ([], [])
  | p0 :: rest ->
    let (st, disc) = fold_left chain_step rest ((p0 :: []), []) in
    ((rev st), disc)

(** val graham : pt list -> pt list **)

let graham pts =
  if Nat.leb (length pts) (S (S (S O)))
  then pts
  else let (h1, disc) = scan forward_lt pts in
       (match h1 with
        | [] -> []
        | p0 :: t ->
          let lastp = last h1 p0 in
          let (h2, _) = scan reverse_lt (lastp :: (p0 :: disc)) in
          app (removelast t) h2)

(** val fg_points : arr -> pt list **)

let fg_points f =
  map (fun p -> ((nthZ Z0 p Z0), (nthZ Z0 p (Zpos XH))))
    (filter (fgb f) (all_positions f.shape))

(** val convexhull : arr -> pt list **)

let convexhull f =
  graham (fg_points f)

(** val pairs : z list -> (z * z) list **)

let rec pairs = function
| [] -> []
| a :: l0 -> (match l0 with
              | [] -> []
              | b :: t -> (a, b) :: (pairs t))

(** val haar_row : z list -> z list **)

let haar_row l =
  app (map (fun ab -> Z.add (fst ab) (snd ab)) (pairs l))
    (map (fun ab -> Z.sub (snd ab) (fst ab)) (pairs l))

(** val ihaar_row : z list -> z list **)

let ihaar_row l =
  let n0 = Nat.div (length l) (S (S O)) in
  flat_map (fun lh ->
    (Z.div (Z.sub (fst lh) (snd lh)) (Zpos (XO XH))) :: ((Z.div
                                                           (Z.add (fst lh)
                                                             (snd lh)) (Zpos
                                                           (XO XH))) :: []))
    (combine (firstn n0 l) (skipn n0 l))

(** val transpose : nat -> z list list -> z list list **)

let rec transpose w rows =
  match w with
  | O -> []
  | S k -> (map (fun r -> hd Z0 r) rows) :: (transpose k (map tl rows))

(** val haar2d : nat -> nat -> z list list -> z list list **)

let haar2d w h rows =
  transpose h (map haar_row (transpose w (map haar_row rows)))

(** val ihaar2d : nat -> nat -> z list list -> z list list **)

let ihaar2d w h rows =
  transpose h (map ihaar_row (transpose w (map ihaar_row rows)))

(** val qacc : q list -> z -> q **)

let qacc l p =
  if (||) (Z.ltb p Z0) (Z.geb p (zlen l))
  then { qnum = Z0; qden = XH }
  else nthZ { qnum = Z0; qden = XH } l p

(** val qsum : q list -> q **)

let qsum l =
  fold_right qplus { qnum = Z0; qden = XH } l

(** val wavelet_row : q list -> q list -> q list **)

let wavelet_row c l =
  let nc = zlen c in
  let half = Z.to_nat (Z.div (zlen l) (Zpos (XO XH))) in
  app
    (map (fun x ->
      qsum
        (map (fun ci ->
          qmult
            (nthZ { qnum = Z0; qden = XH } c (Z.sub (Z.sub nc ci) (Zpos XH)))
            (qacc l (Z.add (Z.mul (Zpos (XO XH)) x) ci)))
          (zseq Z0 (length c)))) (zseq Z0 half))
    (map (fun x ->
      qsum
        (map (fun ci ->
          qmult
            (qmult
              (if Z.even ci
               then qopp { qnum = (Zpos XH); qden = XH }
               else { qnum = (Zpos XH); qden = XH })
              (nthZ { qnum = Z0; qden = XH } c ci))
            (qacc l (Z.add (Z.mul (Zpos (XO XH)) x) ci)))
          (zseq Z0 (length c)))) (zseq Z0 half))

(** val iwavelet_row : q list -> q list -> q list **)

let iwavelet_row c l =
  let nc = zlen c in
  let n0 = zlen l in
  let low = firstn (Z.to_nat (Z.div n0 (Zpos (XO XH)))) l in
  let high = skipn (Z.to_nat (Z.div n0 (Zpos (XO XH)))) l in
  map (fun x ->
    let terms =
      map (fun ci ->
        let xmap2 = Z.add (Z.sub (Z.add x ci) nc) (Zpos (XO XH)) in
        if Z.even xmap2
        then ({ qnum = Z0; qden = XH }, { qnum = Z0; qden = XH })
        else let xmap = Z.quot xmap2 (Zpos (XO XH)) in
             ((qmult (nthZ { qnum = Z0; qden = XH } c ci) (qacc low xmap)),
             (qmult
               (qmult
                 (if Z.even ci
                  then { qnum = (Zpos XH); qden = XH }
                  else qopp { qnum = (Zpos XH); qden = XH })
                 (nthZ { qnum = Z0; qden = XH } c
                   (Z.sub (Z.sub nc ci) (Zpos XH)))) (qacc high xmap))))
        (zseq Z0 (length c))
    in
    qdiv (qplus (qsum (map fst terms)) (qsum (map snd terms))) { qnum = (Zpos
      (XO XH)); qden = XH }) (zseq Z0 (length l))

(** val axis_geom : z -> z -> z * z **)

let axis_geom c n0 =
  let ns = Z.pow (Zpos (XO XH)) (Z.add (Z.log2 n0) c) in
  (ns, (Z.div (Z.sub ns n0) (Zpos (XO XH))))

(** val center_search : nat -> z list -> z -> z -> (z * z) list option **)

let rec center_search fuel dims border0 c =
  match fuel with
  | O -> None
  | S k ->
    if (||) (existsb (fun n0 -> Z.leb (snd (axis_geom c n0)) border0) dims)
         (match dims with
          | [] -> true
          | _ :: _ -> false)
    then center_search k dims border0 (Z.add c (Zpos XH))
    else Some (map (axis_geom c) dims)

(** val center_geom : z list -> z -> (z * z) list option **)

let center_geom dims border0 =
  center_search (Z.to_nat (Z.add (Zpos (XI (XI (XI XH)))) border0)) dims
    border0 (Zpos XH)

(** val qfloor : q -> z **)

let qfloor x =
  let { qnum = n0; qden = d } = x in Z.div n0 (Zpos d)

(** val zq0 : z -> q **)

let zq0 =
  inject_Z

(** val spline_start : z -> q -> z **)

let spline_start order x =
  Z.sub
    (qfloor
      (qplus x
        (if Z.odd order
         then { qnum = Z0; qden = XH }
         else { qnum = (Zpos XH); qden = (XO XH) })))
    (Z.quot order (Zpos (XO XH)))

(** val bspline : z -> q -> q **)

let bspline order y =
  if Z.eqb order (Zpos XH)
  then if qltb { qnum = (Zpos XH); qden = XH } y
       then { qnum = Z0; qden = XH }
       else qminus { qnum = (Zpos XH); qden = XH } y
  else if Z.eqb order (Zpos (XO XH))
       then if qltb y { qnum = (Zpos XH); qden = (XO XH) }
            then qminus { qnum = (Zpos (XI XH)); qden = (XO (XO XH)) }
                   (qmult y y)
            else if qltb y { qnum = (Zpos (XI XH)); qden = (XO XH) }
                 then qmult
                        (qmult { qnum = (Zpos XH); qden = (XO XH) }
                          (qminus { qnum = (Zpos (XI XH)); qden = (XO XH) } y))
                        (qminus { qnum = (Zpos (XI XH)); qden = (XO XH) } y)
                 else { qnum = Z0; qden = XH }
       else if Z.eqb order (Zpos (XI XH))
            then if qltb y { qnum = (Zpos XH); qden = XH }
                 then qdiv
                        (qplus
                          (qmult
                            (qmult (qmult y y)
                              (qminus y { qnum = (Zpos (XO XH)); qden = XH }))
                            { qnum = (Zpos (XI XH)); qden = XH }) { qnum =
                          (Zpos (XO (XO XH))); qden = XH }) { qnum = (Zpos
                        (XO (XI XH))); qden = XH }
                 else if qltb y { qnum = (Zpos (XO XH)); qden = XH }
                      then qdiv
                             (qmult
                               (qmult
                                 (qminus { qnum = (Zpos (XO XH)); qden = XH }
                                   y)
                                 (qminus { qnum = (Zpos (XO XH)); qden = XH }
                                   y))
                               (qminus { qnum = (Zpos (XO XH)); qden = XH } y))
                             { qnum = (Zpos (XO (XI XH))); qden = XH }
                      else { qnum = Z0; qden = XH }
            else if qltb y { qnum = (Zpos XH); qden = (XO XH) }
                 then qplus
                        (qmult (qmult y y)
                          (qminus
                            (qmult (qmult y y) { qnum = (Zpos XH); qden = (XO
                              (XO XH)) }) { qnum = (Zpos (XI (XO XH)));
                            qden = (XO (XO (XO XH))) })) { qnum = (Zpos (XI
                        (XI (XO (XO (XI (XI XH))))))); qden = (XO (XO (XO (XO
                        (XO (XO (XI XH))))))) }
                 else if qltb y { qnum = (Zpos (XI XH)); qden = (XO XH) }
                      then qplus
                             (qmult y
                               (qplus
                                 (qmult y
                                   (qminus
                                     (qmult y
                                       (qminus { qnum = (Zpos (XI (XO XH)));
                                         qden = (XO (XI XH)) }
                                         (qdiv y { qnum = (Zpos (XO (XI
                                           XH))); qden = XH }))) { qnum =
                                     (Zpos (XI (XO XH))); qden = (XO (XO
                                     XH)) })) { qnum = (Zpos (XI (XO XH)));
                                 qden = (XO (XO (XO (XI XH)))) })) { qnum =
                             (Zpos (XI (XI (XI (XO (XI XH)))))); qden = (XO
                             (XO (XO (XO (XO (XI XH)))))) }
                      else if qltb y { qnum = (Zpos (XI (XO XH))); qden = (XO
                                XH) }
                           then qdiv
                                  (qmult
                                    (qmult
                                      (qminus y { qnum = (Zpos (XI (XO XH)));
                                        qden = (XO XH) })
                                      (qminus y { qnum = (Zpos (XI (XO XH)));
                                        qden = (XO XH) }))
                                    (qmult
                                      (qminus y { qnum = (Zpos (XI (XO XH)));
                                        qden = (XO XH) })
                                      (qminus y { qnum = (Zpos (XI (XO XH)));
                                        qden = (XO XH) }))) { qnum = (Zpos
                                  (XO (XO (XO (XI XH))))); qden = XH }
                           else { qnum = Z0; qden = XH }

(** val spline_weights : z -> q -> q list **)

let spline_weights order x =
  let start = spline_start order x in
  map (fun hh ->
    bspline order (qabs (qplus (qminus (zq0 start) x) (zq0 hh))))
    (zseq Z0 (Z.to_nat (Z.add order (Zpos XH))))

(** val qtrunc : q -> z **)

let qtrunc =
  qfloor

(** val map_coordinate : z -> z -> q -> q option **)

let map_coordinate mode len x =
  if qltb x { qnum = Z0; qden = XH }
  then if Z.eqb mode extendMirror
       then if Z.leb len (Zpos XH)
            then Some { qnum = Z0; qden = XH }
            else let sz2 = Z.sub (Z.mul (Zpos (XO XH)) len) (Zpos (XO XH)) in
                 let i =
                   qplus
                     (qmult (zq0 sz2)
                       (zq0 (qtrunc (qdiv (qopp x) (zq0 sz2))))) x
                 in
                 Some
                 (if negb (qltb (zq0 (Z.sub (Zpos XH) len)) i)
                  then qplus i (zq0 sz2)
                  else qopp i)
       else if Z.eqb mode extendReflect
            then if Z.leb len (Zpos XH)
                 then Some { qnum = Z0; qden = XH }
                 else let sz2 = Z.mul (Zpos (XO XH)) len in
                      let i =
                        if qltb x (qopp (zq0 sz2))
                        then qplus
                               (qmult (zq0 sz2)
                                 (zq0 (qtrunc (qdiv (qopp x) (zq0 sz2))))) x
                        else x
                      in
                      let r =
                        if qltb i (qopp (zq0 len))
                        then qplus i (zq0 sz2)
                        else qminus (qopp i) { qnum = (Zpos XH); qden = XH }
                      in
                      Some
                      (if qltb (qopp { qnum = (Zpos XH); qden = XH }) r
                       then r
                       else { qnum = Z0; qden = XH })
            else if Z.eqb mode extendWrap
                 then if Z.leb len (Zpos XH)
                      then Some { qnum = Z0; qden = XH }
                      else let sz = Z.sub len (Zpos XH) in
                           Some
                           (qplus x
                             (qmult (zq0 sz)
                               (qplus (zq0 (qtrunc (qdiv (qopp x) (zq0 sz))))
                                 { qnum = (Zpos XH); qden = XH })))
                 else if Z.eqb mode extendNearest
                      then Some { qnum = Z0; qden = XH }
                      else None
  else if qltb (zq0 (Z.sub len (Zpos XH))) x
       then if Z.eqb mode extendMirror
            then if Z.leb len (Zpos XH)
                 then Some { qnum = Z0; qden = XH }
                 else let sz2 =
                        Z.sub (Z.mul (Zpos (XO XH)) len) (Zpos (XO XH))
                      in
                      let i =
                        qminus x
                          (qmult (zq0 sz2) (zq0 (qtrunc (qdiv x (zq0 sz2)))))
                      in
                      Some
                      (if negb (qltb i (zq0 len))
                       then qminus (zq0 sz2) i
                       else i)
            else if Z.eqb mode extendReflect
                 then if Z.leb len (Zpos XH)
                      then Some { qnum = Z0; qden = XH }
                      else let sz2 = Z.mul (Zpos (XO XH)) len in
                           let i =
                             qminus x
                               (qmult (zq0 sz2)
                                 (zq0 (qtrunc (qdiv x (zq0 sz2)))))
                           in
                           Some
                           (if negb (qltb i (zq0 len))
                            then qminus (qminus (zq0 sz2) i) { qnum = (Zpos
                                   XH); qden = XH }
                            else i)
                 else if Z.eqb mode extendWrap
                      then if Z.leb len (Zpos XH)
                           then Some { qnum = Z0; qden = XH }
                           else let sz = Z.sub len (Zpos XH) in
                                Some
                                (qminus x
                                  (qmult (zq0 sz)
                                    (zq0 (qtrunc (qdiv x (zq0 sz))))))
                      else if Z.eqb mode extendNearest
                           then Some (zq0 (Z.sub len (Zpos XH)))
                           else None
       else Some x

(** val edge_index : z -> z -> z **)

let edge_index len idx =
  if Z.leb len (Zpos XH)
  then Z0
  else let s2 = Z.sub (Z.mul (Zpos (XO XH)) len) (Zpos (XO XH)) in
       if Z.ltb idx Z0
       then let i = Z.add (Z.mul s2 (Z.quot (Z.opp idx) s2)) idx in
            if Z.leb i (Z.sub (Zpos XH) len) then Z.add i s2 else Z.opp i
       else if Z.geb idx len
            then let i = Z.sub idx (Z.mul s2 (Z.quot idx s2)) in
                 if Z.geb i len then Z.sub s2 i else i
            else idx

(** val qsum0 : q list -> q **)

let qsum0 l =
  fold_right qplus { qnum = Z0; qden = XH } l

(** val interp1 : z -> z -> q list -> q -> q **)

let interp1 order mode dat x =
  let len = zlen dat in
  (match map_coordinate mode len x with
   | Some cc ->
     let start = spline_start order cc in
     qsum0
       (map (fun hw ->
         qmult (snd hw)
           (nthZ { qnum = Z0; qden = XH } dat
             (edge_index len (Z.add start (fst hw)))))
         (combine (zseq Z0 (Z.to_nat (Z.add order (Zpos XH))))
           (spline_weights order cc)))
   | None -> { qnum = Z0; qden = XH })

(** val shift1 : z -> z -> q list -> q -> q list **)

let shift1 order mode dat s =
  map (fun k -> interp1 order mode dat (qminus (zq0 k) s))
    (zseq Z0 (length dat))

(** val zoom_factor : z -> z -> q **)

let zoom_factor n_in n_out =
  if Z.eqb n_out (Zpos XH)
  then { qnum = (Zpos XH); qden = XH }
  else qdiv (zq0 (Z.sub n_in (Zpos XH))) (zq0 (Z.sub n_out (Zpos XH)))

(** val zoom1 : z -> z -> q list -> z -> q list **)

let zoom1 order mode dat n_out =
  map (fun k ->
    interp1 order mode dat (qmult (zq0 k) (zoom_factor (zlen dat) n_out)))
    (zseq Z0 (Z.to_nat n_out))

(** val cooc_pairs : arr -> z list -> (z * z) list **)

let cooc_pairs f delta =
  flat_map (fun p ->
    match fixpos extendIgnore f.shape (padd p delta) with
    | Some q0 -> ((aget f p), (aget f q0)) :: []
    | None -> []) (all_positions f.shape)

(** val cooc : arr -> z list -> z -> z list **)

let cooc f delta m =
  let codes =
    map (fun ab -> Z.add (Z.mul (fst ab) m) (snd ab)) (cooc_pairs f delta)
  in
  foldl_labeled (fun _ r -> Z.add r (Zpos XH)) Z0 (Z.mul m m) codes codes

(** val cooc_sym : arr -> z list -> z -> z list **)

let cooc_sym f delta m =
  let c = cooc f delta m in
  map (fun yx ->
    Z.add (nthZ Z0 c (Z.add (Z.mul (fst yx) m) (snd yx)))
      (nthZ Z0 c (Z.add (Z.mul (snd yx) m) (fst yx))))
    (list_prod (zseq Z0 (Z.to_nat m)) (zseq Z0 (Z.to_nat m)))

(** val roll_right : z -> z -> z **)

let roll_right v points =
  Z.add (Z.div v (Zpos (XO XH)))
    (Z.mul (Z.modulo v (Zpos (XO XH)))
      (Z.pow (Zpos (XO XH)) (Z.sub points (Zpos XH))))

(** val lbp_map_go : nat -> z -> z -> z -> z **)

let rec lbp_map_go n0 v best points =
  match n0 with
  | O -> best
  | S k ->
    let v' = roll_right v points in
    lbp_map_go k v' (if Z.ltb v' best then v' else best) points

(** val lbp_map : z -> z -> z **)

let lbp_map v points =
  lbp_map_go (Z.to_nat points) v v points

(** val prefix_row : z -> z list -> z list **)

let rec prefix_row acc = function
| [] -> []
| x :: t -> (Z.add acc x) :: (prefix_row (Z.add acc x) t)

(** val next_row : z list -> z list -> z -> z -> z list **)

let rec next_row prev row left upleft =
  match prev with
  | [] -> []
  | u :: prev' ->
    (match row with
     | [] -> []
     | x :: row' ->
       let v = Z.sub (Z.add (Z.add x u) left) upleft in
       v :: (next_row prev' row' v u))

(** val integral_go : z list -> z list list -> z list list **)

let rec integral_go prev = function
| [] -> []
| r :: rest ->
  let cur = next_row prev r Z0 Z0 in cur :: (integral_go cur rest)

(** val integral : z list list -> z list list **)

let integral = function
| [] -> []
| r0 :: rest ->
  let first = prefix_row Z0 r0 in first :: (integral_go first rest)

(** val moments : arr -> z -> z -> z -> z -> z **)

let moments f p0 p1 c0 c1 =
  sumZ
    (map (fun p ->
      Z.mul
        (Z.mul (Z.pow (Z.sub (nthZ Z0 p Z0) c0) p0)
          (Z.pow (Z.sub (nthZ Z0 p (Zpos XH)) c1) p1)) (aget f p))
      (all_positions f.shape))

(** val gbernsen_px : q -> q -> q -> q -> q -> bool **)

let gbernsen_px f fmax fmin contrast_threshold gthresh =
  let fptp = qminus fmax fmin in
  let fmean =
    qplus (qdiv fmax (inject_Z (Zpos (XO XH))))
      (qdiv fmin (inject_Z (Zpos (XO XH))))
  in
  if qltb fptp contrast_threshold then qltb fmean gthresh else qltb f fmean

(** val soft_threshold_px : q -> q -> q **)

let soft_threshold_px f tval =
  let above = qltb tval f in
  let below = (&&) (qltb f (inject_Z Z0)) (qltb (qplus f tval) (inject_Z Z0))
  in
  let thresholded = inject_Z Z0 in
  let thresholded0 = if above then qminus f tval else thresholded in
  if below then qplus f tval else thresholded0

(** val uf_find : nat -> z list -> z -> z list * z **)

let rec uf_find fuel p i =
  match fuel with
  | O -> (p, i)
  | S k ->
    let pi = nthZ Z0 p i in
    if Z.eqb pi i
    then (p, i)
    else let r = uf_find k p pi in ((updZ (fst r) i (snd r)), (snd r))

(** val uf_join : nat -> z list -> z -> z -> z list **)

let uf_join fuel p i j =
  let a = uf_find fuel p i in
  let b = uf_find fuel (fst a) j in updZ (fst b) (snd a) (snd b)

(** val uf_classes : arr -> arr -> z list **)

let uf_classes f bc =
  let n0 = length f.data in
  let joined =
    fold_left (fun p ij -> uf_join n0 p (fst ij) (snd ij)) (label_pairs f bc)
      (init_classes f)
  in
  fold_left (fun p i ->
    if Z.eqb (nthZ Z0 p i) (Zneg XH) then p else fst (uf_find n0 p i))
    (zseq Z0 n0) joined

(** val uf_label : arr -> arr -> z list * z **)

let uf_label f bc =
  renumber (Zneg XH) (uf_classes f bc)
