"""Writes /verif/MANIFEST.json from the table below (kept in one place so it stays valid)."""
import json, os

CLAIMED = {
 "C02": ("proof", "Coq theorems: subm (translated from the C++ loop body on every run) is clamped subtraction for every width and "
         "pair of values; boolean dilation/erosion of the model are adjoint for any dimension and element, borders included, hence "
         "open/close are (anti-)extensive, idempotent and increasing; cdilate/cerode bounds for every dtype and iteration count. "
         "For unsigned dtypes and flat elements (what morph.py builds from masks) the grey-scale adjunction, the six laws of "
         "opening/closing and the exactness of both top-hats are theorems on the images clear of the upper limit; binary duality "
         "dilate = not erode(not .) is a theorem for every element with a symmetric clamped neighbourhood relation (cross, boxes, "
         "disks pass the executable test; an asymmetric element provably fails). All laws are also evaluated on the "
         "implementation's outputs and all seven public functions are compared with the extracted model on generated inputs "
         "(incl. boolean row views of larger buffers)",
         "Rocq proof (Galois adjunction) + translator + differential correspondence"),
 "C06": ("proof", "Coq theorems: the translated fix_offset equals the mathematical border rule in all six modes (for all "
         "coordinates and lengths) and the generic convolution model equals the defining sum for any dimension and kernel shape; "
         "the native convolve1d fast path (interior loop + border loop over an uninitialised output row) yields the defining sum at "
         "every column for every mode, row and kernel shorter than the row, whatever the buffer held; "
         "the model (incl. the executable model of those loops) is run against the fresh build in the regime "
         "where double arithmetic is exact, over dtypes, layouts, modes, every axis (+/-) and both convolve1d paths; Gaussian "
         "filters are compared with convolve1d chains using the documented weights (tolerance, support only)",
         "Rocq proof + translator + differential correspondence (exact-arithmetic regime)"),
 "C01": ("proof", "Coq theorems (all dims/dtypes/elements) about an executable model whose scalar kernels "
         "(fix_offset, erode_sub, dilate_add) are re-translated from the C++ on every run: erosion = lattice definition at every "
         "pixel, saturation laws for every width, scatter-dilation = max of contributions; the 2-D boolean fast path "
         "(second executable model, whose loops are RE-TRANSLATED from fast_binary_dilate_erode_2d and proved to be the model's "
         "updates) is proved equal to the generic path for every image and element; the border-region offsets table of "
         "_filters.cpp (per-axis arithmetic RE-TRANSLATED from init_filter_offsets / init_filter_iterator / iterate_both) is modelled in "
         "N dimensions and proved to present, at every pixel, the row computed at that pixel, whose entries are the border-mapped "
         "window positions; the model is run (extracted OCaml) "
         "against the fresh build of /repo on generated inputs over dtypes x layouts x element classes, and the extracted Coq "
         "specification judges the implementation's outputs",
         "Rocq proof + translator + differential correspondence"),
 "C07": ("proof", "Coq theorems (any dimension, mode, neighbourhood): the samples gathered by the filter kernels are those selected "
         "by the neighbourhood under the mathematical border rule (through the re-translated fix_offset); the selected element is the "
         "rank-th smallest by counting (unique), with the proportional rank in ignore mode; mean = (sum, count) of those samples; "
         "template_match = sum of squared differences (no-overflow regime); find marks a position iff the template occurs there, "
         "flush edges and template = image included. Model and extracted specification are run against the fresh build on generated inputs",
         "Rocq proof + translator + differential correspondence"),
 "C13": ("proof", "Coq theorems: the per-label fold returns, for ANY operation and identity element, the fold over exactly the pixels "
         "of that label (hence sum; max/min for regions not beyond the identity element, negative and floating values included); "
         "histogram = value counts; relabel preserves partition and background and numbers 1..n in scan order of first appearance "
         "(shared renumbering lemma); remove_regions zeroes exactly the selected regions; borders marks a pixel iff a neighbour under the "
         "mathematical border rule differs (any dimension/mode/neighbourhood, through the re-translated fix_offset); is_same_labeling "
         "(two insert-if-absent maps) decides exactly whether the pixelwise pairs form a bijection of label sets fixing 0; the "
         "generic N-D bbox scan returns the tight box of the non-zero positions (zeros when empty), the 2-D skip-ahead path equals it, "
         "and the one-pass labeled.bbox scan returns the tight box of every label's pixels; center_of_mass accumulates weight and first "
         "moments over exactly the pixels of the label. All executable models are run against the fresh build on generated inputs",
         "Rocq proof + translator + differential correspondence"),
 "C03": ("proof", "Coq theorems (any dimension, any connectivity element): the joins performed by the scan are exactly the "
         "in-image adjacencies of the property (through the re-translated fix_offset in constant mode); the label map is 0 "
         "exactly on zeros; two non-zero pixels share a label iff they are related by the equivalence closure of those "
         "adjacencies (quick-find invariant); labels are 1..n in scan order of first appearance and the count is n (shared "
         "renumbering lemmas); the union-find structure as written in _labeled.cpp (parent array, recursive find with path "
         "compression, join by re-pointing a root, compression pass) is a second executable model proved to return the same "
         "labels and count for every input (forest invariant, fuel shown sufficient). Both models and an independent evaluation "
         "of the definition are compared with the fresh build on generated and (thorough) exhaustive inputs",
         "Rocq proof + translator + differential correspondence"),
 "C14": ("proof", "Coq theorems: locmax/locmin mark a pixel iff no non-centre member of the neighbourhood (edge-replicated) is strictly "
         "better (any dimension/neighbourhood); regional extrema are a subset of local ones (the flood only clears marks); hitmiss "
         "= (whole template inside and all 0/1 entries coincide) for every template with odd sides in any dimension; close_holes: the "
         "stack-based flood marks exactly the background reachable from a border background pixel through the neighbourhood (any "
         "image, neighbourhood and dimension; worklist invariant, fuel shown sufficient), so exactly the unreachable background is "
         "filled; regmax/regmin (scan + floods of remove_fake_regmin_max) for symmetric neighbourhoods: what is kept is plateau-closed "
         "(a marked pixel has no unmarked weakly-better in-image neighbour) and no regional extremum is ever discarded, i.e. the "
         "result is the GREATEST set of local extrema whose outside neighbours are strictly worse = the union of the "
         "regional-extremum plateaus (the unmarking flood is related to the marking flood by complementing the marks). All "
         "models are compared with executable specifications and with the fresh build on generated and exhaustive small inputs",
         "Rocq proof + translator + differential correspondence"),
 "C04": ("proof", "Coq theorems (any dimension, neighbourhood, marker set): the code's flood -- flat-delta neighbour table, stored "
         "lower-bound margins that skip bounds checks, zero-delta entries dropped -- equals, labels and lines, the flood that checks "
         "every neighbour position explicitly (simulation proof); markers keep their labels; every pixel is 0 or linked to a "
         "marker of its own label by neighbourhood steps through that label (flood invariant); conversely every pixel a marker can "
         "reach is labelled and the loop ends with an empty queue (second invariant + measure), so the labelled set is exactly the "
         "reachable set. The "
         "queue order is the re-translated operator<. Model, checked flood and an independent heap-based evaluation of the "
         "definition are compared with the fresh build (incl. dirty-heap worker processes) on generated and exhaustive inputs",
         "Rocq proof (simulation + invariants) + translator + differential correspondence"),
 "C05": ("proof", "Coq theorems, all for every input: the lower-envelope pass of _distance.cpp (parabola stack with exact rational "
         "intersection tests, then the forward sweep; executable model) returns at every position the minimum over p of "
         "(q-p)^2 + f[p] (invariants of the stack: abscissae increasing, every removed parabola dominated; fuel of the sweep shown "
         "sufficient) and equals the executable min-plus specification; one such pass per axis yields at every pixel the minimum "
         "over the whole grid of squared Euclidean distance + initial value (induction over the axes); hence distance() of the "
         "model is 0 on the background, exactly the least squared distance to a background pixel elsewhere, and larger than every "
         "attainable distance when there is no background - any dimension, any shape; gvoronoi (origins carried through the "
         "passes) returns at every pixel the label of a nearest labelled pixel and keeps labelled pixels. The model is tied to the code by exact "
         "differential correspondence on generated lines and images (and both to brute force)",
         "Rocq proof (envelope invariant + induction over axes) + differential correspondence (exact integers)"),
 "C16": ("proof", "Coq theorems on element functions RE-TRANSLATED from thresholding.py on every run (Python ast -> Gallina over Q, "
         "np.choose orientation preserved): gbernsen follows the Bernsen rule in both contrast regimes; soft_threshold shrinks by "
         "tval and zeroes small magnitudes. The first-maximiser search returns a maximiser of the exact between-class variance; the "
         "histogram is permutation invariant. otsu (running class means) and rc are exact-rational models of the code compared with "
         "the rational specification and with the fresh build; implementation outputs are judged against the exact rational optimum",
         "Rocq proof + Python-ast translator + differential correspondence (exact rationals)"),
 "C20": ("proof", "Coq theorems over R about element functions RE-TRANSLATED from colors.py on every run (matrices, constants and "
         "the orientation of every np.choose from the source): white -> D65 with Y = 1, black -> 0, every XYZ component "
         "non-decreasing in every channel (monotone branches + interval proof at the knee), the two sRGB transfer functions mutually "
         "inverse, Lab white L* = 100 with |a*|,|b*| bounded (coq-interval), grey weights sum to 1, sepia clipped; stretch over Q: "
         "minimum -> lower bound, non-decreasing, inside the range. The implementation is judged on the RGB lattice and by exact order "
         "predicates on generated stretch requests",
         "Rocq proof (Reals + Interval) + Python-ast translator + property oracles on the implementation"),
 "C15": ("proof", "Coq theorems: thin only deletes (subset) and stops only at a fixpoint of a whole round; [fin] every structuring "
         "element RE-TRANSLATED from _thin.cpp matches only simple points (8 elements x 256 neighbourhoods); [fin] the Euler "
         "lookup tables RE-TRANSLATED from euler.py are the per-window V-E+F contributions of the closed/open pixel complex; each "
         "monotone chain of the hull consists of input points with strictly turning consecutive triples. Global topology "
         "preservation, components-minus-holes and hull containment are judged on every generated / exhaustive (<=3x5) case by "
         "independent evaluation; thin, euler and convexhull are compared with the extracted models",
         "Rocq proof + finite sweeps + translator + differential correspondence"),
 "C17": ("proof", "Coq theorems: on every row of even length ihaar inverts haar exactly, and so do the full two-pass 2-D transforms on "
         "every integer image with even sides; a Haar pass doubles the sum of squares "
         "(so the energy-preserving transform conserves it), haar is additive and homogeneous; [fin] the ten Daubechies tables "
         "RE-TRANSLATED from _convolve.cpp have lengths 2..20, sum to 2 and are orthonormal under even shifts within 1e-5, with "
         "D2 = [1,1]; wavelet_center offsets exceed the border and wavelet_decenter inverts wavelet_center. The 2-D transforms, "
         "inline semantics, linearity and centred reconstruction for every code are compared with the extracted models / checked "
         "numerically on the fresh build",
         "Rocq proof + finite table check + translator + differential correspondence (exact integer regime)"),
 "C18": ("proof", "Coq theorems over Q about an exact model of zoom_shift (real-valued border mapping, B-spline weights, mirrored edge "
         "indices): in-range coordinates are untouched by every border mode; the B-spline weights of orders 1, 2, 3 and 4 sum to one for "
         "every real coordinate, hence a constant signal is reproduced exactly at every in-range coordinate in every order and mode; "
         "order 1 is linear interpolation of the two neighbours and returns the sample at integer coordinates (zero shift / unit zoom "
         "= identity, integer shift = translation); zoom returns the requested length and maps corners to corners. The model (orders "
         "1-4, 5 modes, applied along every axis) is compared with the fresh build in the exact regime (no prefilter); prefilter, "
         "resize shapes and corners are checked per case",
         "Rocq proof (Q) + differential correspondence (exact rational regime)"),
 "C19": ("proof", "Coq theorems: cooccurence counts exactly the ordered in-image pixel pairs at the offset (any dimension/distance, "
         "through the re-translated fix_offset in ignore mode and the per-label fold theorem); the SURF integral image recurrence is "
         "the exact 2-D prefix sum for every rectangular input; a 180-degree rotation transposes the co-occurrence counts (so C + C^T "
         "is invariant) and transposition swaps the offset's components; for EVERY P the LBP roll has period P, rolled codes share "
         "the bin and the bin is a canonical rotation (plus the finite sweep P <= 12). Haralick formulas, Zernike invariances, LBP histograms and moments are compared "
         "with independent evaluations of the definitions / the extracted models on the fresh build",
         "Rocq proof + finite sweep + differential correspondence"),
 "C08": ("proof", "Coq theorems about the shared array layer (numpypp/array.hpp model): operator++ of the stride-aware iterator keeps "
         "pointer = base + <position, strides> for arbitrary strides and visits positions in C order; at_flat addresses the element "
         "with the given C-order index; flat<->position maps are mutually inverse. All kernel theorems (C01-C07, C13-C19) are stated "
         "on logical arrays, hence layout- and heap-independent by construction. The implementation is swept (support): every "
         "registry function x every array argument x 9 layouts, the non-native byte order and a misaligned (packed-record) view x 3 heap "
         "perturbations (the last with the calls in reverse order) in isolated workers, results compared and arguments checked for "
         "purity; and ABA blocks (a call, the call with one scalar parameter changed, the first call again, each block in its own process) "
         "for history-dependence",
         "Rocq proof (array layer) + metamorphic API sweep in isolated processes"),
 "C09": ("proof", "Coq theorems: the shared helper _get_output, RE-TRANSLATED from internal.py on every run (ordered rejection tests, "
         "exception kinds, returned object), accepts a buffer iff dtype, shape and C-contiguity all match and rejects with ValueError/"
         "TypeError; the multi-axis Gaussian buffer ping-pong returns the caller's buffer, whose last write ends the chain of passes, "
         "for every number of axes. All 30 public functions with out/output are exercised on the fresh build with valid and invalid "
         "buffers (identity of the returned object, equality with the call without out, rejection kind, untouched rejected buffers)",
         "Rocq proof + Python-ast translator + behavioural check of every out= wrapper"),
 "C10": ("proof", "partial: the index arithmetic is proved, the runtime is observed. Coq theorems: the re-translated fix_offset returns an "
         "index inside [0,len) or the explicit flag in every mode; every position a filter kernel dereferences lies inside the array "
         "(any dimension); every entry of the offsets table of _filters.cpp (arithmetic re-translated on every run) is the flag or leads "
         "to an element inside the array, and the table pointer stays on a row of the table; the convolve1d raw-pointer fast path reads in bounds and writes every column under the wrapper's guard; "
         "the unchecked flat neighbour indices of cwatershed (margin lower bounds) are in bounds; at_flat addresses in-range "
         "positions. Runtime half (support): every registry function on generated valid inputs, 1-4 D, sizes to 40, neighbourhoods "
         "larger than the image, random layouts, in isolated workers on an AddressSanitizer build of the current tree",
         "Rocq proof (index arithmetic) + translator + AddressSanitizer runs of generated inputs"),
 "C11": ("proof", "partial: the guard logic is proved, crash- and hang-freedom of the compiled code is observed. Coq theorems: the "
         "argument guards of all 51 native entry points are RE-TRANSLATED from the C++ sources on every run into boolean functions "
         "over argument descriptors (array-ness, rank, shape, type class, contiguity, scalar ranges); passing the guards of the "
         "neighbourhood, extrema, template, find, majority, filter, labelled, slic, distance-transform and 2-D kernels implies the "
         "rank/shape/type/size facts those kernels rely on (equal ranks, output of the input's shape, positive spacing, no "
         "zero-length axis, ...); the Python raise sites that protect kernels without native checks (re-translated from the "
         "wrappers' ast) are present. Runtime half (support): every registry function x a grammar of degenerate arguments (0-d, "
         "empty, rank +/-1, wrong dtype, mismatched shapes, non-arrays, extreme values, 0/negative/huge/NaN scalars incl. every "
         "defaulted parameter, every border mode) in isolated workers with a per-call alarm and RLIMIT_AS, and again on the "
         "AddressSanitizer build",
         "Rocq proof (guards imply kernel preconditions) + C++/Python guard translator + isolated-process degenerate-argument runs"),
 "C12": ("proof", "partial: the interference logic is proved, the behaviour of the compiled kernels under real threads is observed. Coq "
         "theorems: for calls whose steps read only locations they own or that are shared read-only and write only locations they "
         "own, EVERY schedule (arbitrary list of call identifiers, any length) leaves each call with the local state and owned "
         "memory it has when run alone, and shared inputs unchanged (induction over the schedule); a lazily initialised module "
         "value published complete is observed identically by every caller; the RAII lock object re-acquires the lock on every "
         "exit path. The discipline is tied to the code by an inventory RE-TRANSLATED from all C++ and Python sources on every "
         "run: no static data, no namespace variable reassigned, every gil_release a stack object with the save/restore protocol, "
         "the only module-level Python state is a lazy table built in a local and published last, no module-level container is "
         "mutated; while the lock is released the kernels use only field-reading macros, exception type addresses and the "
         "PythonException carrier of the Python C API. Runtime half (support): thread-pool jobs in isolated processes - same arguments shared by 8 threads, one kernel "
         "on different arguments (sizes to 320x320) after a raising call, mixes of 2-32 calls incl. raising ones, cold starts - "
         "compared bit-exactly with the solo outcomes, plus reference-count drift of the shared inputs",
         "Rocq proof (serial equivalence for all schedules) + source inventory translator + thread-pool differential runs"),
}
NOT_YET = "check not built yet in this round (see DESIGN.md section 8 for the plan)"
ALL = ["C%02d" % i for i in range(1, 21)]

def main():
    checks = []
    for pid in ALL:
        if pid not in CLAIMED:
            continue
        level, text, tech = CLAIMED[pid]
        checks.append({
            "property_id": pid,
            "quick_cmd": "./check %s quick" % pid,
            "thorough_cmd": "./check %s thorough" % pid,
            "evidence_file": "/verif/evidence/%s.json" % pid,
            "replay_cmd_template": "./check %s --replay {path}" % pid,
            "engine": "coq-model",
            "level_claimed": {"category": level, "text": text, "design_ref": "DESIGN.md section 8, %s" % pid},
            "level_note": "Trusted: Coq 8.16.1 kernel; translator tools/translate; ExtrOcamlBasic extraction + ocaml/driver.ml; "
                          "hand-written models tied to the code by correspondence on sampled inputs only; numpy/CPython/g++. "
                          "No axioms declared; Print Assumptions per theorem recorded in the evidence file.",
            "technique": tech,
        })
    m = {
        "version": 1,
        "setup_cmd": "tools/setup.sh",
        "hooks": {"guard": "MAHOTAS_VERIF", "enable": "no hooks are needed: checks build /repo's working tree out of tree "
                  "(python setup.py build --build-lib /verif/.cache/build/<hash>) and import it",
                  "baseline_off_cmd": "cd /repo && /venv/bin/python setup.py -q build_ext --inplace -j16 >/dev/null 2>&1; "
                  "cd /repo && /venv/bin/python -m pytest -ra -q -p no:cacheprovider --timeout=900 --continue-on-collection-errors",
                  "source_commits": [], "add_only": True},
        "engines": [{"name": "coq-model", "path": "/verif/coq", "serves_properties": sorted(CLAIMED),
                     "kind_free_text": "Coq 8.16 development (models, specs, proofs), translator from C++/Python sources, "
                     "extracted OCaml model driver, Python differential harness"}],
        "checks": checks,
        "notes": "Genuine defects found are repaired by 'fix:' commits in /repo and listed in /verif/known_findings.json "
                 "(status fixed) / KNOWN_FINDINGS.md; reverse patches of every fix are kept under /verif/seeded/revert-*.",
        "not_applicable": [{"property_id": p, "reason": NOT_YET} for p in ALL if p not in CLAIMED],
    }
    with open("/verif/MANIFEST.json", "w") as f:
        json.dump(m, f, indent=1)

if __name__ == "__main__":
    main()
