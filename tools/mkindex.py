#!/usr/bin/env python3
"""Regenerates Appendix G of DESIGN.md (index of property theorems) from coq/Properties/*.v."""
import re, glob, os
V = "/verif"
lines = []
total = 0
for f in sorted(glob.glob(os.path.join(V, "coq", "Properties", "C*.v"))):
    pid = os.path.basename(f)[:-2]
    names = re.findall(r"^Theorem\s+(\w+)", open(f).read(), re.M)
    total += len(names)
    lines.append("* **%s** (%d): %s" % (pid, len(names), ", ".join("`%s`" % n for n in names)))
nsup = sum(len(glob.glob(os.path.join(V, "coq", d, "*.v"))) for d in ("Base", "Model", "Proof"))
ngen = len([l for l in open(os.path.join(V, "coq", "_CoqProject")) if l.startswith("Gen/")])
body = ("## Appendix G — index of property theorems (generated from coq/Properties/*.v by tools/mkindex.py)\n"
        "Each file `coq/Properties/C<nn>.v` contains only statements closed by `exact <lemma>` (or a two-line combination of lemmas); the harness runs\n"
        "`Print Assumptions` on every one of them and copies the output into the evidence file.\n\n" + "\n".join(lines) +
        "\n\nTotal: %d property theorems; supporting development: %d files under coq/Base, coq/Model, coq/Proof (plus %d generated files under coq/Gen).\n"
        % (total, nsup, ngen))
p = os.path.join(V, "DESIGN.md")
s = open(p).read()
i = s.index("## Appendix G")
open(p, "w").write(s[:i] + body)
print(total, nsup, ngen)
