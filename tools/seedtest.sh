#!/bin/bash
# usage: seedtest.sh <patch.diff> <ID> [tier]  -- applies the patch to /repo, runs the check, reverts.  prints CAUGHT/MISSED
P=$1; ID=$2; TIER=${3:-quick}
cd /repo || exit 2
git apply --check "$P" 2>/dev/null || { echo "PATCH-DOES-NOT-APPLY $P"; exit 3; }
git apply "$P"
cd /verif && ./check $ID $TIER > /tmp/seedtest.$$.log 2>&1; rc=$?
git -C /repo checkout -- .
if [ $rc -ne 0 ] && grep -q "^VIOLATION property=$ID" /tmp/seedtest.$$.log; then echo "CAUGHT $ID $P: $(grep '^VIOLATION' /tmp/seedtest.$$.log | head -1)"; grep -o '"why": "[^"]*"' /tmp/seedtest.$$.log | head -2
else echo "MISSED $ID $P (rc=$rc)"; tail -2 /tmp/seedtest.$$.log; fi
rm -f /tmp/seedtest.$$.log
