#!/usr/bin/env python3
"""Runs every stored seed (seeded/*/patch.diff) against the check of its property on a patched /repo, one after the other, and
records the outcome in seeded/<id>/meta.json ("detected_by") and in seeded/TABLE.md.  /repo is restored after each run.
usage: tools/seedtable.py [tier] [only-prefix]"""
import json, os, subprocess, sys, time, re
V = "/verif"
tier = sys.argv[1] if len(sys.argv) > 1 else "quick"
only = sys.argv[2] if len(sys.argv) > 2 else ""
rows = []
assert subprocess.run(["git", "-C", "/repo", "status", "--porcelain", "--untracked-files=no"], capture_output=True, text=True).stdout.strip() == "", "/repo is dirty"
for d in sorted(os.listdir(os.path.join(V, "seeded"))):
    p = os.path.join(V, "seeded", d)
    if not os.path.isfile(os.path.join(p, "patch.diff")) or not d.startswith(only):
        continue
    if not os.path.isfile(os.path.join(p, "meta.json")):
        continue
    meta = json.load(open(os.path.join(p, "meta.json")))
    pid = meta["property"]
    if os.environ.get("SEEDTABLE_RESUME") and isinstance(meta.get("detected_by"), dict) and meta["detected_by"].get("check") == "./check %s %s" % (pid, tier) \
            and meta["detected_by"].get("result", "").startswith("caught"):
        rows.append((d, pid, meta["detected_by"]["result"], meta["detected_by"].get("reported", "")))
        continue
    t0 = time.time()
    chk = subprocess.run(["git", "-C", "/repo", "apply", "--check", os.path.join(p, "patch.diff")], capture_output=True, text=True)
    if chk.returncode != 0:
        res, why = "does-not-apply", chk.stderr.strip().splitlines()[-1][:120] if chk.stderr.strip() else ""
    else:
        subprocess.check_call(["git", "-C", "/repo", "apply", os.path.join(p, "patch.diff")])
        try:
            r = subprocess.run([os.path.join(V, "check"), pid, tier], capture_output=True, text=True, cwd=V, timeout=3600)
            out = r.stdout + r.stderr
        except subprocess.TimeoutExpired:
            r, out = None, "TIMEOUT"
        finally:
            subprocess.check_call(["git", "-C", "/repo", "checkout", "--", "."])
        vio = [l for l in out.splitlines() if l.startswith("VIOLATION property=%s" % pid)]
        if r is not None and r.returncode != 0 and vio:
            res = "caught" + (" (obligation only: no-failing-input-found)" if vio[0].rstrip().endswith("no-failing-input-found") else "")
            m = re.findall(r'"why": "([^"]*)"', out)
            why = m[0][:160] if m else ""
        else:
            res, why = "MISSED", out.strip().splitlines()[-1][:120] if out.strip() else ""
    meta["detected_by"] = {"check": "./check %s %s" % (pid, tier), "result": res, "reported": why, "seconds": round(time.time() - t0)}
    json.dump(meta, open(os.path.join(p, "meta.json"), "w"), indent=1)
    rows.append((d, pid, res, why))
    print(d, pid, res, why, flush=True)
with open(os.path.join(V, "seeded", "TABLE.md"), "w" if not only else "a") as f:
    f.write("| seeded change | property | ./check <id> %s | what the check reported |\n|---|---|---|---|\n" % tier)
    for d, pid, res, why in rows:
        f.write("| %s | %s | %s | %s |\n" % (d, pid, res, why.replace("|", "/")))
