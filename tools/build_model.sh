#!/bin/bash
# Regenerates Gen/*.v from /repo, builds the Coq development (or the given targets) and the OCaml model driver.
# usage: build_model.sh [make-targets...]   (default: all)
set -u
V=$(cd "$(dirname "$0")/.." && pwd)
cd $V/coq || exit 2
/venv/bin/python $V/tools/translate/gen_all.py > $V/coq/Gen/status.txt 2>&1 || { cat $V/coq/Gen/status.txt; }
[ -f Makefile ] && [ Makefile -nt _CoqProject ] || coq_makefile -f _CoqProject -o Makefile >/dev/null 2>&1
exec 9>$V/.cache/coq.lock
flock 9
timeout 1500 make -j16 "$@" 2>&1
rc=$?
if [ $rc -eq 0 ] && [ -f model.ml ]; then
  if ! cmp -s model.ml $V/ocaml/model.ml || [ ! -x $V/ocaml/modeldrv ] || [ $V/ocaml/driver.ml -nt $V/ocaml/modeldrv ]; then
    cp model.ml model.mli $V/ocaml/ && cd $V/ocaml && \
    timeout 300 ocamlfind ocamlopt -O2 -w -a -package str model.mli model.ml driver.ml -o modeldrv.new 2>&1 | grep -v "options -O2" ; \
    [ -f modeldrv.new ] && mv modeldrv.new modeldrv
  fi
fi
exit $rc
