"""Reproducible search for images whose thinning needs more passes than the shorter side of their bounding box (solid blocks with
one-pixel holes); writes the 60 slowest to tools/data/slow_thinning.json as [passes, shorter_side, rows].  Run with /venv/bin/python and
PYTHONPATH=/repo.  The C15 generator replays them with flips, transposition and padding: any cap on the number of passes shows there."""
import numpy as np, random, mahotas as mh, json, sys
from concurrent.futures import ProcessPoolExecutor
def passes(img):
    full=mh.thin(img)
    lo,hi=0,64
    # smallest k with thin(img,k)==full
    k=0
    while True:
        if (mh.thin(img,max_iter=k)==full).all(): return k
        k+=1
def work(seed):
    rng=random.Random(seed); out=[]
    for i in range(400):
        h,w=rng.randint(5,12),rng.randint(8,26)
        img=np.ones((h,w),bool)
        for _ in range(rng.randint(2,12)): img[rng.randrange(h),rng.randrange(w)]=0
        ys,xs=np.nonzero(img); r=ys.max()-ys.min()+1; c=xs.max()-xs.min()+1
        m=min(r,c)
        if (mh.thin(img,max_iter=m)!=mh.thin(img)).any():
            out.append((int(passes(img)),int(m),img.astype(int).tolist()))
    return out
if __name__=="__main__":
    res=[]
    with ProcessPoolExecutor(16) as ex:
        for o in ex.map(work, range(64)): res+=o
    res.sort(key=lambda t:-(t[0]-t[1]))
    print(len(res), [(p,m) for p,m,_ in res[:40]])
    json.dump(res[:60], open("/verif/tools/data/slow_thinning.json","w"))


# Second search (appended to the same data file, the smallest first): dense random images of 12..30 pixels per side whose
# thinning needs more passes than their LONGER side + 2 (up to 40 passes for 30 x 30) -- found with the loop below
# (96 seeds x 150 images, 31 hits):
#   n = choice([12,14,16,20,24,30]); m = n or n +- 4; p = choice([.8,.9,.95,.97]); img = random(n, m) < p
#   keep img if thin(img, max_iter=max(bbox sides) + 2) != thin(img)
