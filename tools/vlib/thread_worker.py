"""Isolated worker for C12: runs a set of registry calls sequentially, then concurrently from a thread pool, and reports.
stdin: one JSON document {"calls": [{"fn", "args", "kwargs", "share": group-or-null}], "threads": n, "rounds": r, "reps": k}
  calls with the same non-null "share" group receive the SAME argument objects (shared read-only inputs).
stdout: one JSON line {"seq": [canon...], "conc": [[canon per round]...], "after": [canon...], "refdrift": {...}, "switch": s}
A crash of this process is observed by the parent through the exit status."""
import json
import os
import sys
import threading

sys.path.insert(0, os.environ["VERIF_LIB"])
sys.path.insert(1, os.path.join(os.path.dirname(os.path.abspath(__file__)), ".."))
import numpy as np  # noqa: E402
import warnings  # noqa: E402
warnings.simplefilter("ignore")
import mahotas as mh  # noqa: E402
from vlib import registry as R  # noqa: E402


def outcome(fn, args, kwargs):
    try:
        return {"res": R.canon(fn(*args, **kwargs))}
    except Exception as e:      # noqa: BLE001 - the kind of exception is part of the result
        return {"exc": type(e).__name__, "msg": str(e)[:120]}


def main():
    job = json.loads(sys.stdin.read())
    sys.setswitchinterval(job.get("switch", 1e-5))
    calls = job["calls"]
    shared = {}
    built = []
    for c in calls:
        fn = R.resolve(mh, c["fn"])
        if c.get("share") is not None and c["share"] in shared:
            args, kwargs = shared[c["share"]]
        else:
            args = [R.build_arg(a, "C", fill=1) for a in c["args"]]
            kwargs = {k: R.build_arg(v, "C", fill=1) for k, v in c["kwargs"].items()}
            for a in list(args) + list(kwargs.values()):
                if isinstance(a, np.ndarray):
                    a.setflags(write=False) if c.get("share") is not None and not c.get("inplace") else None
            if c.get("share") is not None:
                shared[c["share"]] = (args, kwargs)
        built.append((fn, args, kwargs))
    keep = [[a.copy() if isinstance(a, np.ndarray) else None for a in args] for _, args, _ in built]
    cold = job.get("cold", False)     # cold: the very first calls in this process are the concurrent ones (lazy initialisation)
    seq = [None] * len(built) if cold else [outcome(*b) for b in built]
    objs = []
    for _, args, kwargs in built:
        for a in list(args) + list(kwargs.values()):
            if isinstance(a, np.ndarray) and not any(a is o for o in objs):
                objs.append(a)
    ref0 = [sys.getrefcount(o) for o in objs]
    nthreads = job.get("threads", len(built))
    reps = job.get("reps", 1)
    conc = []
    for rnd in range(job.get("rounds", 1)):
        results = [None] * len(built)
        barrier = threading.Barrier(min(nthreads, len(built)))
        errors = []

        def work(idxs):
            try:
                barrier.wait(timeout=60)
            except threading.BrokenBarrierError:
                pass
            for i in idxs:
                last = None
                for _ in range(reps):
                    last = outcome(*built[i])
                    if seq[i] is not None and last != seq[i]:
                        break
                results[i] = last
        nt = min(nthreads, len(built))
        parts = [list(range(t, len(built), nt)) for t in range(nt)]
        ths = [threading.Thread(target=work, args=(p,)) for p in parts]
        for t in ths:
            t.start()
        for t in ths:
            t.join()
        conc.append(results)
    ref1 = [sys.getrefcount(o) for o in objs]
    after = [outcome(*b) for b in built]
    if cold:
        seq = after
    unchanged = all(k is None or pos in (c.get("inplace") or []) or
                    (a.shape == k.shape and np.array_equal(a, k, equal_nan=(a.dtype.kind == "f")))
                    for c, (_, args, _), ks in zip(calls, built, keep) for pos, (a, k) in enumerate(zip(args, ks)))
    drift = [{"obj": i, "shape": list(o.shape), "before": b, "after": a} for i, (o, b, a) in enumerate(zip(objs, ref0, ref1)) if a != b]
    print("RES " + json.dumps({"seq": seq, "conc": conc, "after": after, "refdrift": drift, "args_unchanged": unchanged}, default=repr),
          flush=True)


if __name__ == "__main__":
    main()
