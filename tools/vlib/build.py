"""Builds /repo's current working tree out of tree (never touches /repo), cached by content hash."""
import fcntl
import hashlib
import os
import shutil
import subprocess
import sys
import time

REPO = os.environ.get("VERIF_REPO", "/repo")
VERIF = os.path.dirname(os.path.dirname(os.path.dirname(os.path.abspath(__file__))))
CACHE = os.path.join(VERIF, ".cache")
PY = "/venv/bin/python"


def tree_hash(repo=REPO):
    h = hashlib.sha256()
    files = []
    for root, dirs, fs in os.walk(os.path.join(repo, "mahotas")):
        dirs[:] = sorted(d for d in dirs if d not in ("__pycache__", "tests", "demos"))
        for f in sorted(fs):
            if f.endswith((".cpp", ".h", ".hpp", ".py")):
                files.append(os.path.join(root, f))
    files.append(os.path.join(repo, "setup.py"))
    for p in files:
        h.update(os.path.relpath(p, repo).encode())
        with open(p, "rb") as fh:
            h.update(hashlib.sha256(fh.read()).digest())
    return h.hexdigest()[:20]


def _prune(keep, prefix):
    d = os.path.join(CACHE, "build")
    ents = [e for e in os.listdir(d) if e.startswith(prefix) and e != keep]
    ents.sort(key=lambda e: os.path.getmtime(os.path.join(d, e)))
    for e in ents[:-1]:  # keep the most recent other build (useful when toggling a patch)
        shutil.rmtree(os.path.join(d, e), ignore_errors=True)


def build(asan=False, repo=REPO, quiet=True):
    """Returns (libdir, info).  Raises RuntimeError (with the log tail) if the build fails."""
    os.makedirs(os.path.join(CACHE, "build"), exist_ok=True)
    key = ("asan2-" if asan else "opt-") + tree_hash(repo)
    dest = os.path.join(CACHE, "build", key)
    lock = open(os.path.join(CACHE, "build.lock"), "w")
    fcntl.flock(lock, fcntl.LOCK_EX)
    try:
        t0 = time.time()
        if os.path.exists(os.path.join(dest, "OK")):
            os.utime(dest)
            return os.path.join(dest, "lib"), {"tree_hash": key, "seconds": 0.0, "cached": True}
        shutil.rmtree(dest, ignore_errors=True)
        os.makedirs(dest)
        env = dict(os.environ)
        env.pop("DEBUG", None)
        if asan:
            env["CFLAGS"] = "-O1 -g -DNDEBUG -fsanitize=address -fno-omit-frame-pointer"   # NDEBUG as in the release build
            env["CXXFLAGS"] = env["CFLAGS"]
            env["LDFLAGS"] = "-fsanitize=address"
        cmd = [PY, "setup.py", "-q", "build", "-j16", "--build-lib", os.path.join(dest, "lib"),
               "--build-temp", os.path.join(dest, "tmp")]
        p = subprocess.run(cmd, cwd=repo, env=env, stdout=subprocess.PIPE, stderr=subprocess.STDOUT, text=True)
        shutil.rmtree(os.path.join(dest, "tmp"), ignore_errors=True)
        if p.returncode != 0:
            tail = p.stdout[-3000:]
            shutil.rmtree(dest, ignore_errors=True)
            raise RuntimeError("build of /repo failed:\n" + tail)
        open(os.path.join(dest, "OK"), "w").write("ok\n")
        _prune(key, "asan2-" if asan else "opt-")
        return os.path.join(dest, "lib"), {"tree_hash": key, "seconds": round(time.time() - t0, 1), "cached": False}
    finally:
        fcntl.flock(lock, fcntl.LOCK_UN)
        lock.close()


if __name__ == "__main__":
    lib, info = build(asan="--asan" in sys.argv)
    print(lib, info)
