"""Registry of public mahotas functions with generators of inputs in their documented domain.
Used by C08 (layout / heap-history / purity), C10 (ASan), C11 (degenerate grammar) and C12 (threads).

An argument spec is JSON-able:
   {"arr": dtype, "shape": [...], "vals": [...]}   an array argument (logical content, C order)
   anything else                                    passed through (ints, floats, strings, lists, None)
"""
import itertools
import numpy as np

INT_DT = ["uint8", "int8", "uint16", "int16", "uint32", "int32", "uint64", "int64"]
FLT_DT = ["float32", "float64"]


def A(dtype, shape, vals):
    return {"arr": dtype, "shape": [int(s) for s in shape], "vals": [v for v in vals]}


def rshape(rng, nd=None, lo=1, hi=7, maxsize=120):
    nd = nd or rng.choice([1, 2, 2, 2, 3])
    while True:
        sh = [rng.randint(lo, hi) for _ in range(nd)]
        if int(np.prod(sh)) <= maxsize:
            return sh


def rvals(rng, dtype, n, lo=None, hi=None):
    if dtype == "bool":
        p = rng.choice([0.2, 0.5, 0.8])
        return [1 if rng.random() < p else 0 for _ in range(n)]
    if dtype.startswith("float"):
        if lo is None:
            lo, hi = -8, 8
        pal = [rng.randint(lo, hi) + rng.choice([0, 0, 0.5, 0.25]) for _ in range(4)]
        return [rng.choice(pal) if rng.random() < 0.4 else rng.randint(lo, hi) + rng.choice([0, 0.5]) for _ in range(n)]
    info = np.iinfo(dtype)
    if lo is None:
        lo, hi = max(info.min, -6), min(info.max, 9)
    lo, hi = max(lo, info.min), min(hi, info.max)
    pal = [rng.randint(lo, hi) for _ in range(3)]
    return [rng.choice(pal) if rng.random() < 0.5 else rng.randint(lo, hi) for _ in range(n)]


def rarr(rng, dtypes, nd=None, lo=None, hi=None, shape=None, hi_dim=7, lo_dim=1):
    dt = rng.choice(dtypes)
    sh = shape or rshape(rng, nd, lo_dim, hi_dim)
    return A(dt, sh, rvals(rng, dt, int(np.prod(sh)), lo, hi))


def cross(nd):
    b = np.zeros([3] * nd, int)
    for pos in itertools.product(range(3), repeat=nd):
        if sum(abs(p - 1) for p in pos) <= 1:
            b[pos] = 1
    return b


def rse(rng, nd, dtype="bool"):
    k = rng.choice(["cross", "box", "rand", "rand", "even", "big", "wide", "huge"])
    if k == "cross":
        b = cross(nd)
    elif k == "box":
        b = np.ones([3] * nd, int)
    elif k == "even":
        b = np.ones([rng.choice([2, 4]) for _ in range(nd)], int)
    elif k == "big":
        sh = [rng.choice([5, 7]) if i == 0 else rng.choice([1, 3]) for i in range(nd)]
        b = np.array([rng.randint(0, 1) for _ in range(int(np.prod(sh)))]).reshape(sh)
    elif k == "wide":     # much wider than most images along the LAST axis, members at the far ends
        sh = [rng.choice([1, 3]) for _ in range(nd)]
        sh[-1] = rng.choice([9, 15, 21])
        b = np.zeros(sh, int)
        b[..., 0] = 1
        b[..., -1] = rng.randint(0, 1)
        b[tuple(s // 2 for s in sh)] = rng.randint(0, 1)
    elif k == "huge":     # larger than the image in every axis
        sh = [rng.choice([9, 11]) for _ in range(nd)] if nd < 3 else [5] * nd
        b = (np.array([rng.random() < 0.15 for _ in range(int(np.prod(sh)))]).reshape(sh)).astype(int)
    else:
        sh = [rng.choice([1, 2, 3, 3]) for _ in range(nd)]
        b = np.array([rng.randint(0, 1) for _ in range(int(np.prod(sh)))]).reshape(sh)
    return A(dtype, b.shape, [int(v) for v in b.reshape(-1)])


def rlabels(rng, shape, nlab=4, dtype=None):
    dt = dtype or rng.choice(["int32", "int64", "uint8", "uint16", "intc", "intc", "intc", "int16"])   # intc: what label() returns
    n = int(np.prod(shape))
    labs = [0, 0] + [rng.randint(1, nlab + 2) for _ in range(nlab)]
    return A(dt, shape, [rng.choice(labs) for _ in range(n)])


MODES = ["nearest", "wrap", "reflect", "mirror", "constant", "ignore"]


class E:
    def __init__(self, name, gen, native=True, inplace_args=(), out_dtype=None, gil=False, float_out=False, nolayout=()):
        self.name, self.gen, self.native = name, gen, native
        self.inplace_args = inplace_args   # argument positions the call may legitimately modify
        self.float_out = float_out
        self.gil = gil                     # releases the GIL in native code
        self.nolayout = nolayout           # argument positions whose layout is part of the contract (e.g. canvases)


def _morph(fn):
    def g(rng):
        if rng.random() < 0.35:      # the 2-D boolean fast path, often with elements wider than the image
            a = rarr(rng, ["bool"], nd=2)
        else:
            a = rarr(rng, ["bool"] + INT_DT)
        return [a, rse(rng, len(a["shape"]), a["arr"])], {}
    return E(fn, g, gil=True)


def _morph_bool(fn):
    def g(rng):
        a = rarr(rng, ["bool"] + INT_DT + FLT_DT)
        return [a, rse(rng, len(a["shape"]), "bool")], {}
    return E(fn, g, gil=True)


def g_cond(rng):
    a = rarr(rng, ["bool", "uint8", "uint16", "int32"])
    b = A(a["arr"], a["shape"], rvals(rng, a["arr"], len(a["vals"])))
    return [a, b, rse(rng, len(a["shape"]), a["arr"])], {}


def g_cdilate(rng):
    args, kw = g_cond(rng)
    return args + [rng.choice([1, 2, 5])], kw


def g_ws(rng):
    s = rarr(rng, ["uint8", "int16", "uint16", "int32", "float32", "float64", "uint32"])
    n = len(s["vals"])
    m = [0] * n
    for k in range(rng.randint(0, 3)):
        m[rng.randrange(n)] = k + 1
    mk = A(rng.choice(["int64", "int32", "uint8"]), s["shape"], m)
    return [s, mk], {"Bc": rse(rng, len(s["shape"]), "bool") if rng.random() < 0.5 else None,
                     "return_lines": rng.random() < 0.5}


def g_filter(rng, need_rank=False, dtypes=None):
    a = rarr(rng, dtypes or (INT_DT + FLT_DT), lo=0, hi=9)
    nd = len(a["shape"])
    sh = [rng.choice([1, 2, 3, 3]) for _ in range(nd)]
    bc = A(a["arr"], sh, [1] * int(np.prod(sh))) if rng.random() < 0.5 else \
        A(a["arr"], sh, [rng.randint(0, 1) for _ in range(int(np.prod(sh)))])
    if not any(bc["vals"]):
        bc["vals"][0] = 1
    kw = {"mode": rng.choice(MODES[:5] if need_rank else MODES)}
    args = [a, bc]
    if need_rank:
        nnz = sum(1 for v in bc["vals"] if v)
        # now and then a rank just outside the neighbourhood: the call must fail (or at least not depend on the heap)
        args.append(rng.choice([nnz, nnz + 3, -1]) if rng.random() < 0.25 else rng.randrange(nnz))
    return args, kw


def g_conv(rng):
    a = rarr(rng, ["int32", "int64", "float32", "float64", "int16"], lo=-3, hi=4)
    nd = len(a["shape"])
    sh = [rng.choice([1, 2, 3, 4, a["shape"][i] + 1]) for i in range(nd)]
    while int(np.prod(sh)) > 40:
        sh[rng.randrange(nd)] = 1
    w = A("float64" if a["arr"].startswith("float") else "int64", sh, [rng.randint(-2, 3) for _ in range(int(np.prod(sh)))])
    return [a, w], {"mode": rng.choice(MODES)}


def g_conv1d(rng):
    a = rarr(rng, ["int32", "float32", "float64", "float64", "float64"], lo=-3, hi=4)   # float64: the weights then need no conversion
    k = rng.choice([1, 2, 3, 3, 5, 8])
    # fractional weights too (quarters: exact in every float type); with an integer image the documented conversion of the
    # weights to the image's dtype must be the same on the contiguous fast path and on the generic path
    q = 0.25 if rng.random() < 0.5 else 1
    w = A("float64", [k], [rng.randint(-6, 9) * q for _ in range(k)])
    return [a, w, rng.randrange(-len(a["shape"]), len(a["shape"]))], {"mode": rng.choice(MODES)}


def g_haralick_features(rng):
    m = rng.randint(2, 5)
    k = rng.choice([4, 13])
    return [A("int32", [k, m, m], [rng.randint(0, 6) for _ in range(k * m * m)])], {"ignore_zeros": rng.random() < 0.6}


def g_gauss(rng):
    a = rarr(rng, FLT_DT, lo_dim=3, hi_dim=9)
    return [a, rng.choice([0.5, 1.0, 1.7])], {"order": rng.choice([0, 1, 2, 3]), "mode": rng.choice(MODES)}


def g_tm(rng):
    a = rarr(rng, ["int32", "float64", "uint8", "int64"], lo=0, hi=5)
    nd = len(a["shape"])
    sh = [rng.choice([1, 2, 3]) for _ in range(nd)]
    t = A(a["arr"], sh, rvals(rng, a["arr"], int(np.prod(sh)), 0, 3))
    return [a, t], {"mode": rng.choice(MODES[:5])}


def g_find(rng):
    a = rarr(rng, ["uint8", "int32", "bool", "float64"], nd=2, lo=0, hi=2)
    sh = [rng.randint(1, a["shape"][0]), rng.randint(1, a["shape"][1])]
    t = A(a["arr"], sh, rvals(rng, a["arr"], sh[0] * sh[1], 0, 2))
    return [a, t], {}


def g_label(rng):
    a = rarr(rng, ["bool", "uint8", "int32", "float64"], lo=0, hi=2)
    return [a], {"Bc": rse(rng, len(a["shape"]), "bool") if rng.random() < 0.6 else None}


def g_labeled_pair(rng):
    a = rarr(rng, INT_DT + FLT_DT)
    return [a, rlabels(rng, a["shape"])], {}


def g_lab(rng):
    return [rlabels(rng, rshape(rng))], {}


def g_lab2(rng):
    return [rlabels(rng, rshape(rng, 2))], {}


def g_borders(rng):
    l = rlabels(rng, rshape(rng))
    return [l], {"mode": rng.choice(MODES), "Bc": rse(rng, len(l["shape"]), "bool") if rng.random() < 0.4 else None}


def g_border(rng):
    l = rlabels(rng, rshape(rng), nlab=3)
    return [l, rng.randint(0, 3), rng.randint(0, 3)], {}


def g_same(rng):
    l = rlabels(rng, rshape(rng), dtype="int32")
    if rng.random() < 0.5:
        perm = {0: 0}
        labs = sorted(set(l["vals"]) - {0})
        sh = labs[:]
        rng.shuffle(sh)
        perm.update(dict(zip(labs, sh)))
        m = A("int64", l["shape"], [perm[v] for v in l["vals"]])
    else:
        m = rlabels(rng, l["shape"], dtype="int64")
    return [l, m], {}


def g_remove_regions(rng):
    l = rlabels(rng, rshape(rng))
    return [l, [rng.randint(0, 6) for _ in range(rng.randint(0, 3))]], {}


def g_bool(rng, nd=None, **kw):
    return [rarr(rng, ["bool"], nd=nd, **kw)], {}


def g_bool2(rng):
    return g_bool(rng, nd=2)


def g_bool2big(rng):
    return [rarr(rng, ["bool"], nd=2, hi_dim=10, lo_dim=1)], {}


def g_dist(rng):
    return [rarr(rng, ["bool", "uint8", "int32"], nd=rng.choice([1, 2, 2, 3, 4]), lo=0, hi=1, hi_dim=5)], \
        {"metric": rng.choice(["euclidean2", "euclidean"])}


def g_uint_img(rng):
    return [rarr(rng, ["uint8", "uint16", "uint32"], lo=0, hi=rng.choice([1, 3, 9, 200]))], {}


def g_uint_img_z(rng):
    a, _ = g_uint_img(rng)
    return a, {"ignore_zeros": rng.random() < 0.5}


def g_any(rng):
    return [rarr(rng, ["bool"] + INT_DT + FLT_DT)], {}


def g_any2(rng):
    return [rarr(rng, INT_DT + FLT_DT, nd=2)], {}


def g_float2_even(rng):
    sh = [rng.choice([2, 4, 6, 8]), rng.choice([2, 4, 6, 8])]
    dt = rng.choice(FLT_DT + ["int32", "uint8"])
    return [A(dt, sh, rvals(rng, dt, sh[0] * sh[1], 0, 9))], {}


def g_wav(rng):
    # odd lengths are accepted by the transforms (the unpaired last sample is dropped): part of the domain for safety/determinism
    sh = [rng.choice([1, 2, 3, 4, 5, 6, 7, 8, 9, 10]), rng.choice([1, 2, 3, 4, 5, 6, 7, 8, 9, 10])]
    dt = rng.choice(FLT_DT + ["int32", "uint8"])
    return [A(dt, sh, rvals(rng, dt, sh[0] * sh[1], 0, 9))], {}


def g_daub(rng):
    a, _ = g_wav(rng)
    return a + ["D%d" % rng.choice(range(2, 21, 2))], {}


def g_rgb(rng):
    sh = [rng.randint(1, 4), rng.randint(1, 4), 3]
    dt = rng.choice(["uint8", "float64", "float32", "int32"])
    return [A(dt, sh, [rng.choice([0, 1, 10, 11, 128, 254, 255, rng.randint(0, 255)]) for _ in range(int(np.prod(sh)))])], {}


def g_xyz(rng):
    sh = [rng.randint(1, 4), rng.randint(1, 4), 3]
    return [A("float64", sh, [rng.choice([0.0, 0.25, 0.5, 0.9, 1.0]) for _ in range(int(np.prod(sh)))])], {}


def g_stretch(rng):
    a = rarr(rng, INT_DT + FLT_DT)
    lo = rng.choice([0, 3, 58])
    return [a, lo, lo + rng.choice([1, 10, 179, 255])], {}


def g_stretch_rgb(rng):
    a, _ = g_rgb(rng)
    return a + [0, 255], {}


def g_shift(rng):
    a = rarr(rng, FLT_DT, hi_dim=6)
    nd = len(a["shape"])
    return [a, [rng.choice([0, 1, -1, 0.5, 2.25, -3]) for _ in range(nd)]], \
        {"order": rng.choice([1, 2, 3, 4]), "mode": rng.choice(["constant", "nearest", "reflect", "wrap", "mirror"]),
         "prefilter": rng.random() < 0.7}


def g_zoom(rng):
    a = rarr(rng, FLT_DT, hi_dim=6, lo_dim=2)
    return [a, rng.choice([1, 2, 0.5, 1.5])], {"order": rng.choice([1, 2, 3])}


def g_spline(rng):
    a = rarr(rng, FLT_DT + ["int32"], hi_dim=7)
    return [a], {"order": rng.choice([2, 3, 4, 5])}


def g_spline1d(rng):
    a = rarr(rng, FLT_DT, hi_dim=7)
    return [a], {"order": rng.choice([2, 3, 4, 5]) if False else rng.choice([2, 3, 4]), "axis": rng.randrange(-len(a["shape"]), len(a["shape"]))}


def g_resize(rng):
    a = rarr(rng, FLT_DT + ["uint8"], nd=2, lo_dim=2, hi_dim=6, lo=0, hi=9)
    return [a, [rng.randint(1, 8), rng.randint(1, 8)]], {"order": rng.choice([1, 3])}


def g_haralick(rng):
    nd = rng.choice([2, 2, 3])
    a = rarr(rng, ["uint8", "int32", "uint16"], nd=nd, lo=0, hi=rng.choice([1, 3, 7]), lo_dim=2, hi_dim=5)
    return [a], {"ignore_zeros": False, "distance": 1}


def g_cooc(rng):
    a = rarr(rng, ["uint8", "int32", "uint16", "int64"], nd=2, lo=0, hi=rng.choice([1, 3, 7]), lo_dim=1, hi_dim=6)
    return [a, rng.randrange(4)], {"symmetric": rng.random() < 0.5, "distance": rng.choice([1, 1, 2])}


def g_lbp(rng):
    a = rarr(rng, ["uint8", "float64", "int32"], nd=2, lo=0, hi=9, lo_dim=3, hi_dim=8)
    return [a, rng.choice([1, 2]), rng.choice([4, 6, 8])], {}


def g_zern(rng):
    a = rarr(rng, ["uint8", "float64"], nd=2, lo=0, hi=9, lo_dim=4, hi_dim=8)
    return [a, rng.choice([2, 3, 4])], {"degree": rng.choice([4, 8])}


def g_moments(rng):
    a = rarr(rng, ["uint8", "float64", "int32"], nd=2, lo=0, hi=9)
    return [a, rng.randint(0, 2), rng.randint(0, 2)], {}


def g_integral(rng):
    return [rarr(rng, ["uint8", "float64", "int32", "float32"], nd=2, lo=0, hi=9)], {}


def g_surf(rng):
    sh = [rng.randint(24, 36), rng.randint(24, 36)]
    return [A("float64", sh, [rng.randint(0, 255) for _ in range(sh[0] * sh[1])])], {"max_points": 16}


def g_surf_dense(rng):
    sh = [rng.randint(24, 36), rng.randint(24, 36)]
    return [A("float64", sh, [rng.randint(0, 255) for _ in range(sh[0] * sh[1])]), rng.choice([8, 12])], {}


def g_tas(rng):
    return [rarr(rng, ["uint8", "uint16"], nd=rng.choice([2, 3]), lo=0, hi=60, lo_dim=3, hi_dim=6)], {}


def g_slic(rng):
    sh = [rng.randint(6, 12), rng.randint(6, 12), 3]
    return [A(rng.choice(["uint8", "float64"]), sh, [rng.randint(0, 255) for _ in range(int(np.prod(sh)))])], \
        {"spacer": rng.choice([3, 4, 6]), "max_iters": 4}


def g_bernsen(rng):
    a = rarr(rng, ["uint8"], nd=2, lo=0, hi=200, lo_dim=2, hi_dim=7)
    return [a, rng.choice([1, 2]), rng.choice([10, 50])], {}


def g_gbernsen(rng):
    a = rarr(rng, ["uint8", "uint16"], nd=2, lo=0, hi=200, lo_dim=2, hi_dim=7)
    return [a, rse(rng, 2, a["arr"]), rng.choice([10, 50]), rng.choice([64, 128])], {}


def g_soft(rng):
    return [rarr(rng, FLT_DT, lo=-9, hi=9), rng.choice([0, 1, 2.5])], {}


def g_hitmiss(rng):
    a = rarr(rng, ["bool", "uint8", "int32"], nd=2, lo=0, hi=1, lo_dim=1, hi_dim=7)
    sh = rng.choice([[3, 3], [1, 3], [3, 1], [1, 1], [3, 5], [2, 2], [2, 3], [4, 1], [4, 3], [2, 1]])
    t = A("uint8", sh, [rng.choice([0, 1, 2]) for _ in range(sh[0] * sh[1])])
    return [a, t], {}


def g_majority(rng):
    return [rarr(rng, ["bool", "uint8"], nd=2, lo=0, hi=1, lo_dim=1, hi_dim=9)], {"N": rng.choice([3, 5])}


def g_euler(rng):
    return [rarr(rng, ["bool"], nd=2, hi_dim=7)], {"n": rng.choice([4, 8])}


def g_bwperim(rng):
    return [rarr(rng, ["bool"], nd=2, hi_dim=7)], {"n": rng.choice([4, 8])}


def g_perimeter(rng):
    return [rarr(rng, ["bool"], nd=2, hi_dim=7)], {"n": rng.choice([4, 8])}


def g_com(rng):
    a = rarr(rng, ["uint8", "float64", "int32"], lo=0, hi=9)
    kw = {}
    if rng.random() < 0.5:
        kw["labels"] = rlabels(rng, a["shape"])
    return [a], kw


def g_bbox(rng):
    return [rarr(rng, ["bool", "uint8", "int32", "float64"], lo=0, hi=1)], {}


def g_thin(rng):
    return [rarr(rng, ["bool"], nd=2, hi_dim=10)], {}


def g_edge(rng):
    return [rarr(rng, ["uint8", "float64"], nd=2, lo=0, hi=9, lo_dim=3, hi_dim=8)], {"just_filter": True}


def g_filter_labeled(rng):
    l = rlabels(rng, rshape(rng, 2))
    return [l], {"remove_bordering": rng.random() < 0.35, "min_size": rng.choice([None, 2, 3]), "max_size": rng.choice([None, 5])}


def g_remove_bordering(rng):
    return [rlabels(rng, rshape(rng, 2))], {"rsize": rng.choice([1, 2])}


def g_wc(rng):
    return [rarr(rng, FLT_DT + ["uint8"], nd=2, lo=0, hi=9, lo_dim=1, hi_dim=9)], {"border": rng.choice([0, 1, 3])}


def g_shape_feat(rng):
    return [rarr(rng, ["bool"], nd=2, lo_dim=2, hi_dim=8)], {}


def g_gvoronoi(rng):
    return [rlabels(rng, rshape(rng, 2), dtype=rng.choice(["int32", "int64", "uint8"]))], {}


# ---- the remaining public array functions (added late: as_rgb, disk, lbp_transform, zernike, get_structuring_elem,
#      remove_regions_where, overlay, polygon.fill_polygon / line, resize_to / resize_rgb_to, wavelet_decenter)
def g_as_rgb(rng):
    sh = rshape(rng, 2)
    dt = rng.choice(["uint8", "float64", "uint16"])
    ch = [A(dt, sh, rvals(rng, dt, int(np.prod(sh)), 0, 9)) if rng.random() < 0.8 else rng.choice([None, 0, 3]) for _ in range(3)]
    if not any(isinstance(c, dict) for c in ch):
        ch[0] = A(dt, sh, rvals(rng, dt, int(np.prod(sh)), 0, 9))
    return ch, {}


def g_disk(rng):
    return [rng.choice([0, 1, 2, 3])], {"dim": rng.choice([2, 3])}


def g_lbp_transform(rng):
    a = rarr(rng, ["uint8", "float64", "int32"], nd=2, lo=0, hi=9, lo_dim=3, hi_dim=8)
    return [a, rng.choice([1, 2]), rng.choice([4, 6, 8])], {"ignore_zeros": False, "preserve_shape": True}


def g_zernike_alias(rng):
    a = rarr(rng, ["uint8", "float64"], nd=2, lo=0, hi=9, lo_dim=4, hi_dim=8)
    return [a, rng.choice([4, 8]), rng.choice([2, 3, 4])], {}


def g_get_se(rng):
    a = rarr(rng, ["bool", "uint8", "float64"])
    nd = len(a["shape"])
    bc = rng.choice([None, 1, 2, "arr"])
    if bc == "arr":
        bc = rse(rng, nd, "bool")
    elif bc is not None and bc > nd:
        bc = 1
    return [a, bc], {}


def g_remove_where(rng):
    l = rlabels(rng, rshape(rng))
    mx = max(l["vals"])
    return [l, A("bool", [mx + 1], [rng.randint(0, 1) for _ in range(mx + 1)])], {}


def g_overlay(rng):
    sh = rshape(rng, 2)
    n = int(np.prod(sh))
    g = A("uint8", sh, rvals(rng, "uint8", n, 0, 200))
    kw = {}
    for c in ("red", "green", "blue"):
        if rng.random() < 0.6:
            kw[c] = A("bool", sh, [rng.randint(0, 1) for _ in range(n)])
    return [g], kw


def g_fill_polygon(rng):
    h, w = rng.randint(3, 9), rng.randint(3, 9)
    pts = [[rng.randrange(h), rng.randrange(w)] for _ in range(rng.randint(0, 5))]
    return [pts, A(rng.choice(["bool", "uint8", "int32"]), [h, w], [0] * (h * w))], {"color": 1}


def g_line(rng):
    h, w = rng.randint(2, 9), rng.randint(2, 9)
    return [[rng.randrange(h), rng.randrange(w)], [rng.randrange(h), rng.randrange(w)],
            A(rng.choice(["bool", "uint8", "int32"]), [h, w], [0] * (h * w))], {"color": 1}


def g_resize_to(rng):
    a = rarr(rng, FLT_DT + ["uint8"], nd=2, lo_dim=2, hi_dim=6, lo=0, hi=9)
    return [a, [rng.randint(1, 9), rng.randint(1, 9)]], {"order": rng.choice([1, 3])}


def g_resize_rgb_to(rng):
    h, w = rng.randint(2, 6), rng.randint(2, 6)
    dt = rng.choice(["float64", "uint8"])
    return [A(dt, [h, w, 3], rvals(rng, dt, h * w * 3, 0, 9)), [rng.randint(1, 8), rng.randint(1, 8)]], {"order": rng.choice([1, 3])}


def g_decenter(rng):
    oh, ow = rng.randint(1, 6), rng.randint(1, 6)
    border = rng.choice([0, 1, 2])
    # the centred shape is what wavelet_center produces for (oh, ow): a power-of-two box with room for the border
    def up(v):
        c = 1
        while True:
            nsz = 2 ** (int(np.floor(np.log2(v))) + c)
            if (nsz - v) // 2 > border:
                return nsz
            c += 1
    c0 = 1
    while True:
        sh = [2 ** (int(np.floor(np.log2(oh))) + c0), 2 ** (int(np.floor(np.log2(ow))) + c0)]
        if min((sh[0] - oh) // 2, (sh[1] - ow) // 2) > border:
            break
        c0 += 1
    n = sh[0] * sh[1]
    return [A("float64", sh, [float(rng.randint(0, 9)) for _ in range(n)]), [oh, ow]], {"border": border}


REG = [
    _morph("erode"), _morph("dilate"), _morph("open"), _morph("close"),
    E("cerode", g_cond, gil=True), E("cdilate", g_cdilate, gil=True),
    E("morph.tophat_open", lambda r: _morph("x").gen(r), gil=True), E("morph.tophat_close", lambda r: _morph("x").gen(r), gil=True),
    E("morph.subm", lambda r: (g_cond(r)[0][:2], {}), gil=True),
    _morph_bool("locmax"), _morph_bool("locmin"), _morph_bool("regmax"), _morph_bool("regmin"),
    E("cwatershed", g_ws, gil=True),
    E("close_holes", g_bool2), E("hitmiss", g_hitmiss, gil=True), E("majority_filter", g_majority),
    E("convolve", g_conv, gil=True), E("convolve1d", g_conv1d, gil=True), E("features.texture.haralick_features", g_haralick_features, float_out=True),
    E("gaussian_filter", g_gauss, gil=True, float_out=True), E("gaussian_filter1d", g_gauss, gil=True, float_out=True),
    E("median_filter", lambda r: (g_filter(r)[0][:2], {"mode": r.choice(MODES[:5])}), gil=True),
    E("rank_filter", lambda r: g_filter(r, True), gil=True),
    E("mean_filter", lambda r: g_filter(r), gil=True, float_out=True),
    E("template_match", g_tm, gil=True), E("find", g_find, gil=True),
    E("label", g_label, gil=True),
    E("labeled_sum", g_labeled_pair, float_out=True), E("labeled.labeled_max", g_labeled_pair, float_out=True),
    E("labeled.labeled_size", g_lab),
    E("labeled.bbox", g_lab), E("labeled.borders", g_borders, gil=True), E("labeled.border", g_border, gil=True),
    E("labeled.relabel", g_lab), E("labeled.is_same_labeling", g_same), E("labeled.remove_regions", g_remove_regions),
    E("labeled.remove_bordering", g_remove_bordering), E("labeled.filter_labeled", g_filter_labeled),
    E("labeled.perimeter", g_perimeter, float_out=True), E("bwperim", g_bwperim),
    E("bbox", g_bbox), E("croptobbox", g_bbox), E("center_of_mass", g_com, float_out=True), E("fullhistogram", g_uint_img),
    E("distance", g_dist, gil=True, float_out=True), E("segmentation.gvoronoi", g_gvoronoi, gil=True),
    E("thin", g_thin, gil=True), E("euler", g_euler, float_out=True),
    E("polygon.convexhull", g_bool2big), E("polygon.fill_convexhull", g_bool2big),
    E("otsu", g_uint_img_z), E("rc", g_uint_img_z, float_out=True),
    E("thresholding.bernsen", g_bernsen), E("thresholding.gbernsen", g_gbernsen), E("thresholding.soft_threshold", g_soft),
    E("haar", g_wav, float_out=True), E("ihaar", g_wav, float_out=True),
    E("daubechies", g_daub, float_out=True), E("idaubechies", g_daub, float_out=True),
    E("wavelet_center", g_wc, float_out=True),
    E("interpolate.shift", g_shift, gil=True, float_out=True), E("interpolate.zoom", g_zoom, gil=True, float_out=True),
    E("interpolate.spline_filter", g_spline, float_out=True), E("interpolate.spline_filter1d", g_spline1d, float_out=True),
    E("imresize", g_resize, float_out=True),
    E("features.haralick", g_haralick, gil=True, float_out=True), E("features.texture.cooccurence", g_cooc, gil=True),
    E("features.lbp", g_lbp, float_out=True), E("features.zernike_moments", g_zern, float_out=True),
    E("moments", g_moments, float_out=True), E("features.surf.integral", g_integral, float_out=True),
    E("features.surf.surf", g_surf, gil=True, float_out=True), E("features.surf.dense", g_surf_dense, gil=True, float_out=True),
    E("features.tas", g_tas, float_out=True), E("features.pftas", g_tas, float_out=True),
    E("features.eccentricity", g_shape_feat, float_out=True), E("features.roundness", g_shape_feat, float_out=True),
    E("features.ellipse_axes", g_shape_feat, float_out=True),
    E("segmentation.slic", g_slic, gil=True),
    E("colors.rgb2xyz", g_rgb, float_out=True), E("colors.rgb2lab", g_rgb, float_out=True), E("colors.xyz2rgb", g_xyz, float_out=True),
    E("colors.xyz2lab", g_xyz, float_out=True), E("colors.rgb2grey", g_rgb, float_out=True), E("colors.rgb2sepia", g_rgb, float_out=True),
    E("stretch", g_stretch), E("stretch_rgb", g_stretch_rgb),
    E("sobel", g_edge, float_out=True), E("dog", g_edge, float_out=True), E("laplacian_2D", g_any2, float_out=True),
]
REG.append(E("labeled.labeled_min", g_labeled_pair, float_out=True))
REG += [E("as_rgb", g_as_rgb), E("disk", g_disk), E("features.lbp.lbp_transform", g_lbp_transform),
        E("features.zernike", g_zernike_alias, float_out=True), E("get_structuring_elem", g_get_se),
        E("labeled.remove_regions_where", g_remove_where), E("overlay", g_overlay),
        E("polygon.fill_polygon", g_fill_polygon, inplace_args=(1,)), E("polygon.line", g_line, inplace_args=(2,)),
        E("resize.resize_to", g_resize_to, float_out=True), E("resize.resize_rgb_to", g_resize_rgb_to, float_out=True),
        E("wavelet_decenter", g_decenter, float_out=True)]
BYNAME = {e.name: e for e in REG}


def resolve(mh, name):
    """public function by dotted name below `mahotas`; sub-modules shadowed by same-named functions (features.lbp,
    features.zernike) are reached by importing the longest module prefix first"""
    import importlib
    parts = name.split(".")
    for cut in range(len(parts) - 1, -1, -1):
        try:
            obj = importlib.import_module(".".join(["mahotas"] + parts[:cut]))
            for p in parts[cut:]:
                obj = getattr(obj, p)
            return obj
        except (ImportError, AttributeError):
            continue
    raise AttributeError(name)


def build_arg(spec, layout="C", fill=None):
    from vlib.harness import apply_layout
    if isinstance(spec, dict) and "arr" in spec:
        dt = bool if spec["arr"] == "bool" else np.dtype(spec["arr"])
        a = np.array(spec["vals"], dtype=dt).reshape(spec["shape"])
        return apply_layout(a, layout, fill=fill)
    return spec


def build_special(spec):
    """degenerate argument descriptors used by C11: {"special": kind, ...}"""
    if not (isinstance(spec, dict) and "special" in spec):
        return spec
    k = spec["special"]
    if k == "zeros":
        return np.zeros(spec["shape"], dtype=np.dtype(spec.get("dtype", "float64")))
    if k == "scalar0d":
        return np.array(3, dtype=np.dtype(spec.get("dtype", "float64")))
    if k == "frozen":      # a read-only array on top of an immutable bytes object: nothing may ever write through it
        dt = np.dtype(spec.get("dtype", "float64"))
        n = int(np.prod(spec["shape"])) if len(spec["shape"]) else 1
        return np.frombuffer(bytes(n * dt.itemsize), dtype=dt).reshape(spec["shape"])
    if k == "object":
        return np.array([[None, 1], [2, 3]], dtype=object)
    if k == "none":
        return None
    if k == "list":
        return [[1, 2], [3, 4]]
    if k == "str":
        return "abc"
    raise ValueError(k)


def canon(x):
    """Canonical, JSON-able form of a result (exact for ints/bools; floats via float.hex())."""
    if isinstance(x, tuple) or isinstance(x, list):
        return {"seq": [canon(v) for v in x]}
    if isinstance(x, np.ndarray):
        a = np.ascontiguousarray(x)
        if a.dtype.kind == "f":
            vals = [float(v).hex() for v in a.reshape(-1)]
        elif a.dtype.kind == "c":
            vals = [complex(v).__repr__() for v in a.reshape(-1)]
        elif a.dtype.kind == "O":
            vals = [repr(v) for v in a.reshape(-1)]
        else:
            vals = [int(v) for v in a.reshape(-1)]
        return {"dtype": str(a.dtype.newbyteorder("=")), "shape": list(a.shape), "vals": vals}
    if isinstance(x, (np.floating, float)):
        return {"f": float(x).hex()}
    if isinstance(x, (np.integer, int, np.bool_, bool)):
        return {"i": int(x)}
    if x is None:
        return None
    if isinstance(x, slice):
        return {"slice": [None if v is None else int(v) for v in (x.start, x.stop, x.step)]}
    return {"repr": repr(x)}


def canon_equal(a, b, float_tol=False):
    """Exact comparison; with float_tol, float payloads may differ by a few ulps (relative 1e-9)."""
    if type(a) != type(b):
        return False
    if isinstance(a, dict):
        if set(a) != set(b):
            return False
        if "vals" in a and float_tol and a.get("dtype", "").startswith(("float", "complex")):
            if a["dtype"] != b["dtype"] or a["shape"] != b["shape"]:
                return False
            if a["dtype"].startswith("complex"):
                return a["vals"] == b["vals"]
            rel = 1e-5 if a["dtype"] == "float32" else 1e-9       # "equal up to floating-point rounding" of the result's precision
            for x, y in zip(a["vals"], b["vals"]):
                fx, fy = float.fromhex(x), float.fromhex(y)
                if fx != fy and not (abs(fx - fy) <= rel * max(1.0, abs(fx), abs(fy))) and not (fx != fx and fy != fy):
                    return False
            return True
        if "f" in a and float_tol:
            fx, fy = float.fromhex(a["f"]), float.fromhex(b["f"])
            return fx == fy or abs(fx - fy) <= 1e-9 * max(1.0, abs(fx), abs(fy)) or (fx != fx and fy != fy)
        return all(canon_equal(a[k], b[k], float_tol) for k in a)
    if isinstance(a, list):
        return len(a) == len(b) and all(canon_equal(x, y, float_tol) for x, y in zip(a, b))
    return a == b
