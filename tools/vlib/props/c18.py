"""C18: shift/zoom/resize evaluate the spline interpolant at the mapped coordinates."""
from fractions import Fraction
import numpy as np
from vlib.harness import Result, apply_layout, LAYOUTS
from vlib import gen

ID = "C18"
MODES = ["nearest", "wrap", "reflect", "mirror", "constant"]
M2I = {"nearest": 0, "wrap": 1, "reflect": 2, "mirror": 3, "constant": 4, "ignore": 5}
RULE = ("float arrays of 1-3 D with small integer values x orders 1-4 x shifts (zero, integer, fractional dyadic, negative, larger "
        "than the array) x zoom factors / explicit target shapes x 5 border modes x prefilter on/off x layouts. With prefilter off "
        "(and for order 1) every operation is exact in rational arithmetic: the implementation must equal the extracted Q model "
        "applied along each axis (1e-9). Definitions checked directly: zero shift / unit zoom return the input, integer shifts are "
        "exact translations with the border rule, order-1 fractional shifts are linear interpolation, spline weights sum to 1 (orders "
        "1-4, exact), spline_filter coefficients reproduce the samples (1e-6), zoom/imresize/resize_to return the requested shape "
        "and map corners to corners; the shift argument is not modified. Non-trivial: array not constant")
NOT_PROVED = ["the recursive prefilter (irrational poles) of orders 2-4 is checked numerically/exactly per case, not proved; the "
              "B-spline weights of orders 1-4 are proved to sum to one and a constant signal to be reproduced exactly",
              "N-D results are compared with the 1-D Q model applied along each axis in turn (tensor product)"]
BUDGET_S = {"quick": 100, "thorough": 900}


def setup(ctx):
    """shifts by whole periods of the border modes are first run in isolated workers: a crash must become a replayable
    violation instead of killing this process"""
    from vlib import isolate, registry as R
    reqs = []
    for ln in (2, 3, 6):
        for mode in MODES:
            for order in (1, 3):
                for k in (1, 2, -1, -2):
                    for per in (2 * ln, 2 * ln - 2, ln - 1):
                        if per > 0:
                            reqs.append({"id": "per-%d-%s-%d-%d-%d" % (ln, mode, order, k, per), "fn": "interpolate.shift",
                                         "args": [R.A("float64", [ln], [float(i) for i in range(ln)]), [float(k * per)]],
                                         "kwargs": {"order": order, "mode": mode}})
    outs = isolate.run_batch(ctx.lib, reqs, timeout_per_call=20)
    ctx.c18_crashes = [r for r, o in zip(reqs, outs) if o is None or "crash" in o or "hang" in o]
    ctx.stats["isolated_period_shifts"] = len(reqs)


def cases(ctx):
    for r in getattr(ctx, "c18_crashes", []):
        yield {"kind": "crash", "req": r}
    rng = ctx.rng
    n = 450 if ctx.tier == "quick" else 5000
    for i in range(n):
        kind = rng.choice(["shift", "shift", "shift", "zoom", "zoom", "weights", "prefilter", "resize"])
        nd = rng.choice([1, 1, 2, 2, 3])
        shape = [rng.randint(2, 7) for _ in range(nd)]
        vals = [rng.randint(-8, 9) for _ in range(gen.size(shape))]
        order = rng.choice([1, 1, 2, 3, 4])
        mode = rng.choice(MODES)
        c = {"kind": kind, "shape": shape, "vals": vals, "order": order, "mode": mode, "layout": rng.choice(LAYOUTS),
             "dtype": rng.choice(["float64", "float64", "float32", "int32"])}
        if kind == "shift":
            # quarter-pixel units; includes whole multiples of the periods of the border modes (2*len, 2*len-2, len-1) on both sides
            c["shift4"] = [rng.choice([0, 0, 4, -4, 8, 2, -2, 1, 3, -5, 4 * (shape[d] + 1), -4 * shape[d],
                                       8 * shape[d], -8 * shape[d], 16 * shape[d], 4 * (2 * shape[d] - 2), -8 * (shape[d] - 1),
                                       4 * (shape[d] - 1), 12 * shape[d] + 2]) for d in range(nd)]
            c["prefilter"] = False if order > 1 else rng.random() < 0.5
            if rng.random() < 0.3:
                c["shift4"] = [4 * rng.choice([0, 1, 2, 3, shape[d], shape[d] + 1]) * rng.choice([1, 1, -1]) for d in range(nd)]
                c["sform"] = rng.choice(["uint8", "uint16", "uint64", "int8", "list-uint8", "pyint"])
            if rng.random() < 0.15:
                # one number for all axes ("If a float, shift is the same for each axis")
                c["shift4"] = [rng.choice([0, 4, -4, 2, 1, 8, -3])] * nd
                c["sform"] = "scalar"
        elif kind == "zoom":
            if rng.random() < 0.25:
                # an axis of length one (a single row, a single column, a single plane)
                shape[rng.randrange(nd)] = 1
                c["shape"] = shape
                c["vals"] = [rng.randint(-8, 9) for _ in range(gen.size(shape))]
            c["out_shape"] = [rng.choice([s, s, 2 * s - 1, 2 * s, max(1, s - 1), rng.randint(1, 12)]) for s in shape]
            c["prefilter"] = False if order > 1 else rng.random() < 0.5
        elif kind == "weights":
            c["x64"] = rng.randint(-400, 400)
        elif kind == "resize":
            c["shape"] = [rng.randint(2, 30), rng.randint(2, 30)]
            c["vals"] = [rng.randint(0, 9) for _ in range(gen.size(c["shape"]))]
            c["target"] = [rng.randint(1, 64), rng.randint(1, 64)]
            c["dtype"] = rng.choice(["float64", "uint8", "float32", "uint16", "int32"])
        elif kind == "prefilter":
            c["shape"] = [rng.choice([3, 6, 12, 17, 24]) for _ in range(nd)] if nd < 3 else [rng.choice([3, 6, 15]) for _ in range(nd)]
            c["vals"] = [rng.randint(-8, 9) for _ in range(gen.size(c["shape"]))]
        yield c


def q_apply(ctx, cmd, order, mode, param, arr):
    """apply the 1-D Q model along every axis in turn; arr: object ndarray of Fractions; param: per-axis parameter"""
    cur = arr
    for ax in range(arr.ndim):
        moved = np.moveaxis(cur, ax, -1)
        lines = moved.reshape(-1, moved.shape[-1])
        out_lines = []
        for line in lines:
            args = " ".join("%d %d" % (Fraction(v).numerator, Fraction(v).denominator) for v in line)
            if cmd == "shift1":
                p = Fraction(param[ax])
                q = "shift1 %d %d %d %d %d %s" % (order, mode, p.numerator, p.denominator, len(line), args)
            else:
                q = "zoom1 %d %d %d %d %s" % (order, mode, param[ax], len(line), args)
            flat = ctx.model.ints(q)[0]
            out_lines.append([Fraction(flat[2 * i], flat[2 * i + 1]) for i in range(len(flat) // 2)])
        newlen = len(out_lines[0]) if out_lines else 0
        res = np.empty((len(out_lines), newlen), dtype=object)
        for i, l in enumerate(out_lines):
            res[i, :] = l
        cur = np.moveaxis(res.reshape(moved.shape[:-1] + (newlen,)), -1, ax)
    return cur


def run_case(ctx, case):
    if case["kind"] == "crash":
        from vlib import isolate
        o = isolate.run_batch(ctx.lib, [case["req"]], timeout_per_call=20)[0]
        if o is None or "crash" in o or "hang" in o:
            return Result(False, True, {"why": "interpolate.shift by a whole period of the border mode crashed or hung the interpreter",
                                        "call": case["req"]["id"]})
        return Result(True, True, None, "crash-replay")
    mh = ctx.mh
    from mahotas import interpolate as I
    kind = case["kind"]
    order, mode = case["order"], case["mode"]
    if kind == "weights":
        x = Fraction(case["x64"], 64)
        flat = ctx.model.ints("spline_weights %d %d %d" % (order, x.numerator, x.denominator))[0]
        w = [Fraction(flat[2 * i], flat[2 * i + 1]) for i in range(len(flat) // 2)]
        ok = sum(w) == 1 and all(v >= 0 for v in w) and len(w) == order + 1
        return Result(ok, True, None if ok else {"why": "B-spline weights of order %d at %s do not form a partition of unity" % (order, x),
                                                 "weights": [str(v) for v in w]}, "weights/order%d" % order)
    a0 = np.array(case["vals"], dtype=np.int64).reshape(case["shape"]).astype(case["dtype"])
    a = apply_layout(a0, case["layout"], fill=1)
    keep = a.copy()
    fi = np.array([Fraction(int(v)) for v in case["vals"]], dtype=object).reshape(case["shape"])
    if kind == "prefilter":
        order = max(order, 2)
        co = I.spline_filter(a, order)
        if not np.array_equal(a, keep):
            return Result(False, True, {"why": "spline_filter modified its input"})
        back = I.shift(a0.astype(np.float64), [0] * a0.ndim, order=order, mode="mirror")
        if not np.allclose(back, a0.astype(np.float64), atol=1e-9):      # values are small integers: rounding error is ~1e-13
            return Result(False, True, {"why": "B-spline expansion of the spline_filter coefficients does not reproduce the samples",
                                        "order": order, "maxdiff": float(np.abs(back - a0).max())})
        return Result(True, len(set(case["vals"])) > 1, None, "prefilter/order%d" % order)
    if kind == "resize":
        a0 = np.array(case["vals"], dtype=np.dtype(case["dtype"])).reshape(case["shape"])
        t = case["target"]
        r = mh.resize_to(a0, t)
        r2 = mh.imresize(a0.astype(np.float64), t)
        z = I.zoom(a0, [t[0] / a0.shape[0], t[1] / a0.shape[1]], order=1)
        if list(z.shape) != [int(a0.shape[0] * (t[0] / a0.shape[0])), int(a0.shape[1] * (t[1] / a0.shape[1]))]:
            return Result(False, True, {"why": "zoom(factor) shape != int(shape * factor)"})
        if list(r.shape) != t or list(r2.shape) != t:
            return Result(False, True, {"why": "resize_to/imresize did not return the requested shape", "want": t,
                                        "got": [list(r.shape), list(r2.shape)]})
        if min(t) > 1 and min(case["shape"]) > 1:
            cin = [a0[0, 0], a0[0, -1], a0[-1, 0], a0[-1, -1]]
            cout = [r[0, 0], r[0, -1], r[-1, 0], r[-1, -1]]
            if not np.allclose(cin, cout, atol=1e-6):
                return Result(False, True, {"why": "resize_to does not map corner samples to corner samples", "in": cin, "out": [float(v) for v in cout]})
        return Result(True, True, None, "resize")
    mi = M2I[mode]
    if kind == "shift":
        sh = [Fraction(s, 4) for s in case["shift4"]]
        sarr = np.array([float(s) for s in sh])
        # the shift may be given in any numeric form: whole non-negative shifts also as unsigned / small signed numpy integers,
        # as a list of numpy scalars or as Python ints (negating it may not wrap around)
        form = case.get("sform", "float")
        if form != "float" and all(s.denominator == 1 for s in sh):
            ints = [int(s) for s in sh]
            if form in ("uint8", "uint16", "uint64") and all(0 <= v < 200 for v in ints):
                sarr = np.array(ints, dtype=form)
            elif form == "int8" and all(-100 <= v <= 100 for v in ints):
                sarr = np.array(ints, dtype=np.int8)
            elif form == "list-uint8" and all(0 <= v < 200 for v in ints):
                sarr = [np.uint8(v) for v in ints]
            elif form == "pyint":
                sarr = ints
        if form == "scalar":
            sarr = float(sh[0])
        skeep = np.array(sarr).copy()
        got = I.shift(a, sarr, order=order, mode=mode, prefilter=case["prefilter"])
        if not np.array_equal(a, keep) or not np.array_equal(np.array(sarr), skeep):
            return Result(False, True, {"why": "shift modified an argument (image or shift vector)"})
        if got.shape != a0.shape:
            return Result(False, True, {"why": "shape"})
        want = q_apply(ctx, "shift1", order, mi, sh, fi)
        wf = np.array([[float(v)] for v in want.reshape(-1)]).reshape(a0.shape)
        if not np.allclose(got, wf, rtol=1e-9, atol=1e-9):
            k = int(np.argmax(np.abs(got - wf)))
            return Result(False, True, {"why": "shift != spline interpolant at the shifted coordinates (Q model)", "order": order, "mode": mode,
                                        "shift": [float(s) for s in sh], "want": wf.reshape(-1)[:12].tolist(), "got": got.reshape(-1)[:12].tolist()})
        if all(s == 0 for s in sh) and order == 1 and not np.array_equal(got, a0.astype(np.float64)):
            return Result(False, True, {"why": "zero shift does not return the input"})
        return Result(True, len(set(case["vals"])) > 1, None, "shift/order%d/%s/%s" % (order, mode,
                      "zero" if all(s == 0 for s in sh) else ("int" if all(s.denominator == 1 for s in sh) else "frac")))
    if kind == "zoom":
        osh = case["out_shape"]
        out = np.empty(osh, np.float64)
        got = I.zoom(a, 1.0, out=out, order=order, mode=mode, prefilter=case["prefilter"])
        if not np.array_equal(a, keep):
            return Result(False, True, {"why": "zoom modified its input"})
        if list(got.shape) != osh:
            return Result(False, True, {"why": "zoom shape", "got": list(got.shape), "want": osh})
        want = q_apply(ctx, "zoom1", order, mi, osh, fi)
        wf = np.array([float(v) for v in want.reshape(-1)]).reshape(osh)
        if not np.allclose(got, wf, rtol=1e-9, atol=1e-9):
            return Result(False, True, {"why": "zoom != spline interpolant at the mapped coordinates (Q model)", "order": order, "mode": mode,
                                        "out_shape": osh, "want": wf.reshape(-1)[:12].tolist(), "got": got.reshape(-1)[:12].tolist()})
        if osh == case["shape"] and order == 1 and not np.array_equal(got, a0.astype(np.float64)):
            return Result(False, True, {"why": "unit zoom does not return the input"})
        return Result(True, len(set(case["vals"])) > 1, None, "zoom/order%d/%s" % (order, mode))
    raise ValueError(kind)


def shrink(ctx, case):
    if case.get("layout", "C") != "C":
        c = dict(case); c["layout"] = "C"; yield c
