"""C06: convolve / convolve1d / gaussian_filter = defining sums in all modes."""
import numpy as np
from vlib.harness import Result, enc_arr, enc_list, apply_layout, LAYOUTS
from vlib import gen

ID = "C06"
MODES = ["nearest", "wrap", "reflect", "mirror", "constant", "ignore"]
M2I = {"nearest": 0, "wrap": 1, "reflect": 2, "mirror": 3, "constant": 4, "ignore": 5}
RULE = ("exact regime: integer-valued images, integer (int dtypes) or quarter-integer (float dtypes) weights, so that every "
        "double operation is exact and the Z-valued Coq model predicts the result bit for bit; random over dtype x ndim 1-3 x "
        "7 layouts x kernels (odd/even/oversized/asymmetric/with zeros/length 1) x 6 modes x every axis incl. negative x both "
        "convolve1d paths; thorough adds exhaustive 1-D images <=5 over {0,1,2} x kernels <=4 x 6 modes. gaussian_filter(1d)/"
        "laplacian_2D are compared with a chain of convolve1d calls using the documented weights (tolerance 1e-9, support). "
        "Non-trivial: kernel has >=2 non-zero taps and the image is not constant")
NOT_PROVED = ["floating-point rounding of non-dyadic weights (Gaussian) is outside the model: compared with tolerance only",
              "the transposition/reshape glue of convolve1d (numpy) is tied by correspondence only; the native 1-D fast path loops "
              "(interior + border over an uninitialised row) are proved equal to the defining sum (row_fast_is_row_spec)"]
BUDGET_S = {"quick": 100, "thorough": 900}
DTYPES = ["uint8", "int8", "uint16", "int16", "uint32", "int32", "uint64", "int64", "float32", "float64"]


def cases(ctx):
    rng = ctx.rng
    if ctx.tier == "thorough":
        import itertools
        for n in range(1, 6):
            for vals in itertools.product([0, 1, 2], repeat=n):
                for k in range(1, 5):
                    for mode in MODES:
                        w = [rng.choice([0, 1, 2, 3]) for _ in range(k)]
                        yield {"kind": "conv", "dtype": "int32", "shape": [n], "f": list(vals), "wshape": [k], "w": w,
                               "mode": mode, "layout": "C", "scale": 1}
    n = 700 if ctx.tier == "quick" else 8000
    for i in range(n):
        dtype = rng.choice(DTYPES)
        isf = dtype.startswith("float")
        uns = dtype.startswith("uint")
        shape = gen.rand_shape(rng, big=(i % 9 == 0))
        N = gen.size(shape)
        f = [rng.randint(0, 3) if uns else rng.randint(-3, 4) for _ in range(N)]
        kind = rng.choice(["conv", "conv", "conv1d", "conv1d", "gauss"])
        mode = rng.choice(MODES)
        if kind == "conv":
            wshape = [rng.choice([1, 2, 3, 3, 4, 5, shape[d] + rng.choice([0, 1, 2])]) for d in range(len(shape))]
            while gen.size(wshape) > 36:
                wshape[rng.randrange(len(wshape))] = 1
            wn = gen.size(wshape)
            scale = 4 if isf else 1
            w = [rng.choice([0, 0, 1, 2, 3, 5]) if uns else rng.randint(-4, 6) for _ in range(wn)]
            if rng.random() < 0.2:
                w = [x if rng.random() < 0.4 else 0 for x in w]
            yield {"kind": "conv", "dtype": dtype, "shape": shape, "f": f, "wshape": wshape, "w": w, "mode": mode,
                   "layout": rng.choice(LAYOUTS), "scale": scale}
        elif kind == "conv1d":
            axis = rng.randrange(-len(shape), len(shape))
            L = shape[axis]
            k = rng.choice([1, 2, 3, 4, 5, L - 1 if L > 1 else 1, L, L + 1, L + 3])
            k = max(1, min(k, 12))
            scale = 4 if isf else 1
            w = [rng.choice([0, 1, 2, 3]) if uns else rng.randint(-4, 6) for _ in range(k)]
            c = {"kind": "conv1d", "dtype": dtype, "shape": shape, "f": f, "w": w, "axis": axis, "mode": mode,
                 "layout": rng.choice(LAYOUTS), "scale": scale,
                 # a weights vector that is a strided view, most often when it already has the image's dtype (then no conversion
                 # copies it on the way to the native loop)
                 "wstrided": rng.random() < (0.7 if dtype == "float64" else 0.25)}
            if not isf and rng.random() < 0.3:
                # fractional weights on an integer image: the weights are converted to the image's dtype (documented for
                # convolve), on the contiguous fast path exactly as on the generic path
                c["wfrac"] = 4
                c["w"] = [rng.randint(0, 14) if uns else rng.randint(-14, 14) for _ in range(k)]
            yield c
        else:
            sh = [rng.choice([5, 8, 13]) for _ in range(rng.choice([1, 2, 2, 3]))]
            # k/2 + 0.125: 4*sigma + 0.5 is an integer there, so the half-width int(4*sigma + 0.5) differs from round-half-even
            yield {"kind": "gauss", "shape": sh, "seed": rng.randrange(1 << 30),
                   "sigma": rng.choice([0.5, 1.0, 1.5, 2.0, 0.625, 1.125, 1.625, 2.125, 0.875, 1.3]),
                   "order": rng.choice([0, 0, 1, 2, 3]), "mode": mode, "axis": rng.randrange(-len(sh), len(sh)),
                   "layout": rng.choice(LAYOUTS)}
    # products that are exact in double but not in the image's own type: int32 products beyond 2**31 whose sum is small again,
    # float32 values with 13 significant bits (26-bit products).  "Accumulated in double, then cast" fixes the result exactly.
    for i in range(60 if ctx.tier == "quick" else 600):
        shape = rng.choice([[rng.randint(3, 9)], [rng.randint(2, 5), rng.randint(2, 6)]])
        N = gen.size(shape)
        wshape = [rng.choice([2, 3]) for _ in shape]
        wn = gen.size(wshape)
        if i % 2 == 0:
            a = rng.randint(25000, 40000)
            w = [0] * wn
            j, k = rng.sample(range(wn), 2)
            w[j], w[k] = a, -a + rng.randint(-3, 3)
            yield {"kind": "conv", "dtype": "int32", "shape": shape, "f": [rng.randint(90000, 120000) for _ in range(N)],
                   "wshape": wshape, "w": w, "mode": rng.choice(MODES), "layout": rng.choice(LAYOUTS), "scale": 1}
        else:
            yield {"kind": "conv32", "shape": shape, "f": [rng.randint(4097, 8191) for _ in range(N)], "wshape": wshape,
                   "w": [rng.choice([0, 1, -1]) * rng.randint(4097, 8191) for _ in range(wn)], "mode": rng.choice(MODES),
                   "layout": rng.choice(LAYOUTS)}
    for dt in ("float64", "float32"):
        yield {"kind": "ramp", "dtype": dt, "sigma": 2.0}
        yield {"kind": "laplacian", "dtype": dt, "seed": 5}


def gauss_weights(sigma, order):
    s2 = sigma * sigma
    lw = int(4.0 * sigma + 0.5)
    x = np.arange(2 * lw + 1, dtype=float) - lw
    w = np.exp(x * x / (-2. * s2))
    w /= w.sum()
    if order == 1:
        w = w * (-x / s2)
    elif order == 2:
        w = w * ((x * x / s2 - 1.) / s2)
    elif order == 3:
        w = w * ((3.0 - x * x / s2) * x / (s2 * s2))
    # w is the CONVOLUTION kernel (k-th derivative of the Gaussian); correlation uses it reversed
    return w[::-1].copy()


def run_case(ctx, case):
    mh = ctx.mh
    kind = case["kind"]
    if kind in ("conv", "conv1d"):
        dtype = case["dtype"]
        f0 = np.array(case["f"], dtype=dtype).reshape(case["shape"])
        f = apply_layout(f0, case["layout"], fill=1)
        scale = case["scale"]
        mode = case["mode"]
        if kind == "conv":
            w_int = np.array(case["w"], dtype=np.int64).reshape(case["wshape"])
            w = (w_int / scale).astype(np.float64) if scale != 1 else w_int
            keep = f.copy()
            got = mh.convolve(f, w, mode=mode)
            wm = w_int
            cls = "convolve/%s/%s/%dD" % (dtype, mode, f0.ndim)
        else:
            axis = case["axis"]
            w_int = np.array(case["w"], dtype=np.int64)
            w = (w_int / scale) if scale != 1 else w_int.astype(np.float64)
            if case.get("wfrac"):
                w = w_int / float(case["wfrac"])
                w_int = w.astype(np.dtype(dtype)).astype(np.int64)       # the conversion convolve documents (towards zero)
            if case.get("wstrided"):
                big = np.full(2 * len(w), 77.0)
                big[::2] = w
                w = big[::2]
            keep = f.copy()
            got = mh.convolve1d(f, w, axis, mode=mode)
            idx = [1] * f0.ndim
            idx[axis] = len(w_int)
            wm = w_int.reshape(idx)
            fast = f.flags.c_contiguous and len(w_int) < f0.shape[axis]
            cls = "convolve1d/%s/%s/%dD/%s/axis%+d" % (dtype, mode, f0.ndim, "fast" if fast else "generic", axis)
        if not np.array_equal(f, keep):
            return Result(False, True, {"why": "input modified"})
        if got.shape != f0.shape or got.dtype != f0.dtype:
            return Result(False, True, {"why": "shape/dtype", "got": [str(got.dtype), list(got.shape)]})
        fi = f0.astype(np.int64) if not dtype.startswith("uint64") else f0.astype(object)
        want = ctx.model.ints("convolve %d %s %s" % (M2I[mode], enc_arr(f0.astype(np.int64)), enc_arr(wm)))[0]
        spec = ctx.model.ints("conv_spec %d %s %s" % (M2I[mode], enc_arr(f0.astype(np.int64)), enc_arr(wm)))[0]
        lo, hi = gen.INT_INFO.get(dtype, (-2**40, 2**40))
        if not dtype.startswith("float"):
            if any(v < lo or v > hi for v in spec):
                return Result(True, False, None, "skipped-out-of-range")  # cast of an out-of-range double is UB: outside the property
        gl = [float(v) * scale for v in np.asarray(got, dtype=np.float64).reshape(-1)] if dtype.startswith("float") \
            else [int(v) for v in got.reshape(-1)]
        if dtype.startswith("float"):
            if any(v != int(v) for v in gl):
                return Result(False, True, {"why": "non-integer result in exact regime", "got": gl})
            gl = [int(v) for v in gl]
        if gl != spec:
            return Result(False, True, {"why": "implementation != defining sum (conv_spec)", "spec": spec, "got": gl})
        if gl != want:
            return Result(False, True, {"why": "implementation != model", "want_model": want, "got": gl})
        # the native 1-D loops against their executable model (row_fast), with garbage in the output buffer
        if kind == "conv1d" and f0.ndim == 1 and len(case["w"]) < f0.shape[0]:
            rf = ctx.model.ints("row_fast %d %s %s %s" % (M2I[mode], enc_list(case["f"]), enc_list([int(v) for v in w_int.reshape(-1)]),
                                                          enc_list([-99] * len(case["f"]))))[0]
            if rf != spec:
                return Result(False, True, {"why": "row_fast model != row spec", "row_fast": rf, "spec": spec})
        nz = sum(1 for v in w_int.reshape(-1) if v)
        return Result(True, nz >= 2 and len(set(case["f"])) > 1, None, cls)
    if kind == "conv32":
        fi = np.array(case["f"], dtype=np.int64).reshape(case["shape"])
        wi = np.array(case["w"], dtype=np.int64).reshape(case["wshape"])
        f0 = (fi / 4096.0).astype(np.float32)
        assert (f0.astype(np.float64) * 4096 == fi).all()
        f = apply_layout(f0, case["layout"], fill=1)
        got = mh.convolve(f, (wi / 4096.0).astype(np.float32), mode=case["mode"])
        spec = ctx.model.ints("conv_spec %d %s %s" % (M2I[case["mode"]], enc_arr(fi), enc_arr(wi)))[0]
        want = np.array([s / 16777216.0 for s in spec], dtype=np.float64).astype(np.float32).reshape(case["shape"])
        if got.dtype != np.float32 or got.shape != f0.shape:
            return Result(False, True, {"why": "shape/dtype", "got": [str(got.dtype), list(got.shape)]})
        if not np.array_equal(got, want):
            return Result(False, True, {"why": "float32 convolve != defining sum accumulated in double and cast once",
                                        "got": [float(v).hex() for v in got.reshape(-1)],
                                        "want": [float(v).hex() for v in want.reshape(-1)]})
        return Result(True, True, None, "convolve/float32-exact/%s/%dD" % (case["mode"], f0.ndim))
    if kind == "gauss":
        rs = np.random.RandomState(case["seed"])
        a0 = rs.randint(-20, 20, size=case["shape"]).astype(np.float64)
        a = apply_layout(a0, case["layout"])
        sigma, order, mode, axis = case["sigma"], case["order"], case["mode"], case["axis"]
        w = gauss_weights(sigma, order)
        g1 = mh.gaussian_filter1d(a, sigma, axis=axis, order=order, mode=mode)
        ref = mh.convolve1d(a0, w, axis, mode=mode)
        if not np.allclose(g1, ref, rtol=1e-9, atol=1e-9):
            return Result(False, True, {"why": "gaussian_filter1d != convolve1d with the documented weights",
                                        "maxdiff": float(np.abs(g1 - ref).max())})
        g = mh.gaussian_filter(a, sigma, order=order, mode=mode)
        ref = a0
        for ax in range(a0.ndim):
            ref = mh.convolve1d(ref, w, ax, mode=mode)
        if not np.allclose(g, ref, rtol=1e-9, atol=1e-9):
            return Result(False, True, {"why": "gaussian_filter != successive convolve1d", "maxdiff": float(np.abs(g - ref).max())})
        return Result(True, True, None, "gauss/order%d/%s" % (order, mode))
    if kind == "ramp":
        r = np.arange(40, dtype=case["dtype"])
        d1 = mh.gaussian_filter1d(r, case["sigma"], order=1, mode="nearest")[12:28]
        d1_2d = mh.gaussian_filter(np.tile(r, (9, 1)), case["sigma"], order=[0, 1], mode="nearest")[4, 12:28]
        d3 = mh.gaussian_filter1d(r.astype(float) ** 3, case["sigma"], order=3, mode="nearest")[15:25]
        d2 = mh.gaussian_filter1d(r.astype(float) ** 2, case["sigma"], order=2, mode="nearest")[15:25]
        ok = (np.abs(d1 - 1) < 1e-2).all() and (np.abs(d1_2d - 1) < 1e-2).all() and (d3 > 1.0).all() \
            and (np.abs(d2 - 2) < 0.1).all()
        return Result(bool(ok), True, None if ok else {"why": "derivative of ramp/cubic has wrong value or sign",
                                                      "d1": d1.tolist(), "d3": d3.tolist(), "d2": d2.tolist()}, "ramp")
    if kind == "laplacian":
        rs = np.random.RandomState(case["seed"])
        a = rs.randint(0, 50, size=(7, 9)).astype(case["dtype"])
        alpha = 0.2
        ones = np.ones((3, 3))
        alpha_ = max(0, min(alpha, 1))
        ones *= alpha_ / 4.  # per the implementation's documented discrete kernel
        got = mh.laplacian_2D(a, alpha)
        # structural checks that do not depend on the exact coefficients: linear, zero on constants, shape
        ok = got.shape == a.shape and np.allclose(mh.laplacian_2D(np.full((5, 5), 3.0)), 0, atol=1e-9) and \
            np.allclose(mh.laplacian_2D(2 * a.astype(float)), 2 * got, rtol=1e-9, atol=1e-9)
        return Result(bool(ok), True, None if ok else {"why": "laplacian_2D not linear / not zero on constants"}, "laplacian")
    raise ValueError(kind)
