"""C04: cwatershed = seeded priority flooding; unreached pixels are 0; lines."""
import heapq
import itertools
import numpy as np
from vlib.harness import Result, enc_arr, apply_layout, LAYOUTS
from vlib import gen, isolate

ID = "C04"
RULE = ("random surfaces of 1-3 D x 11 numeric dtypes (floats as exact quarter-integers; many ties) x 7 layouts of surface and of "
        "markers x marker sets (none, one, several, touching, on the border, unreachable regions) x neighbourhoods (cross, box, "
        "5x5, arbitrary, even-sized) x return_lines; results (labels AND lines) are compared with the extracted Coq model, with "
        "the extracted Coq flood with explicit bounds checks, and with an independent heap-based evaluation of the definition. "
        "A sample of cases is re-run in fresh worker processes with MALLOC_PERTURB_ to expose uninitialised outputs. thorough: all "
        "3-valued surfaces on grids <=2x3 x all placements of up to two markers x cross/box. Non-trivial: >=1 marker and "
        "surface not constant")
NOT_PROVED = ["std::priority_queue is modelled by its specification (top = greatest under the re-translated operator<)",
              "the lines image is DEFINED operationally by the property (set where a queued pixel is visited from another label): the "
              "theorems are that the code's flood with the margin shortcut equals the flood with explicit checks (labels and lines), "
              "that markers are kept, that the labelled pixels are exactly the reachable ones and that the queue is empty at exit; the "
              "tie of the hand-written model to _morph.cpp is the correspondence check"]
BUDGET_S = {"quick": 110, "thorough": 1200}
DTYPES = ["uint8", "int8", "uint16", "int16", "uint32", "int32", "uint64", "int64", "float32", "float64"]


def flood_ref(shape, surf, markers, offs, want_lines):
    """Definition, written independently: priority flood with (cost, insertion index) order."""
    N = len(surf)
    nd = len(shape)
    strides = [int(np.prod(shape[d + 1:])) for d in range(nd)]
    res = [0] * N
    lines = [0] * N
    status = [0] * N
    h = []
    idx = 0
    for i in range(N):
        if markers[i]:
            heapq.heappush(h, (surf[i], idx, i))
            idx += 1
            res[i] = markers[i]
            status[i] = 1
    while h:
        c, _, p = heapq.heappop(h)
        status[p] = 2
        pos = [(p // strides[d]) % shape[d] for d in range(nd)]
        for off in offs:
            q = [a + b for a, b in zip(pos, off)]
            if not all(0 <= a < s for a, s in zip(q, shape)):
                continue
            j = sum(a * s for a, s in zip(q, strides))
            if status[j] == 0:
                res[j] = res[p]
                heapq.heappush(h, (surf[j], idx, j))
                idx += 1
                status[j] = 1
            elif status[j] == 1 and want_lines and res[j] != res[p]:
                lines[j] = 1
    return res, lines


def offsets_of(bc):
    c = [s // 2 for s in bc.shape]
    return [tuple(int(k) - cc for k, cc in zip(idx, c)) for idx in zip(*np.nonzero(bc)) if any(int(k) != cc for k, cc in zip(idx, c))]


def cross(nd):
    b = np.zeros([3] * nd, int)
    c = tuple([1] * nd)
    b[c] = 1
    for d in range(nd):
        for s in (0, 2):
            idx = list(c)
            idx[d] = s
            b[tuple(idx)] = 1
    return b


def cases(ctx):
    rng = ctx.rng
    if ctx.tier == "thorough":
        for (h, w) in [(1, 2), (2, 2), (1, 3), (2, 3)]:
            n = h * w
            for vals in itertools.product([0, 1, 2], repeat=n):
                for a in range(n):
                    for b in range(a, n):
                        m = [0] * n
                        m[a] = 1
                        if b != a:
                            m[b] = 2
                        for bc in ("cross", "box"):
                            yield {"dtype": "uint8", "shape": [h, w], "vals": list(vals), "markers": m, "bc": bc,
                                   "layout": "C", "mlayout": "C", "lines": True, "mdtype": "int64"}
    n = 700 if ctx.tier == "quick" else 9000
    for i in range(n):
        dtype = rng.choice(DTYPES)
        shape = gen.rand_shape(rng, big=(i % 8 == 0))
        N = gen.size(shape)
        lo = 0 if dtype.startswith("uint") else -4
        pal = [rng.randint(lo, 8) for _ in range(rng.choice([1, 2, 3, 8]))]
        vals = [rng.choice(pal) for _ in range(N)]
        k = rng.choice([0, 1, 1, 2, 3, 5])
        m = [0] * N
        for t in range(k):
            m[rng.randrange(N)] = rng.choice([t + 1, t + 1, 1, 7])
        nd = len(shape)
        bk = rng.choice(["cross", "box", "none", "box5", "arb", "arb", "even"])
        bc = bk
        if bk in ("arb", "even"):
            sh = [rng.choice([1, 3, 3, 5]) if bk == "arb" else rng.choice([2, 4]) for _ in range(nd)]
            bc = {"shape": sh, "vals": [1 if rng.random() < 0.5 else 0 for _ in range(gen.size(sh))]}
        lmap = None
        if rng.random() < 0.2 and i % 25 != 0:
            # marker labels far outside the 32-bit range (tile ids shifted left, hashes, negative ids): the labels of the result
            # are these very numbers; the model sees them through an injective renaming
            pool = [2 ** 31, 2 ** 32, 2 ** 32 + 5, 2 ** 31 + 7, 2 ** 40 + 1, (3 << 32) + 2, 2 ** 62, -3, -(2 ** 33), -(2 ** 31) - 1]
            rng.shuffle(pool)
            lmap = pool[:7]
        yield {"dtype": dtype, "shape": shape, "vals": vals, "markers": m, "bc": bc, "layout": rng.choice(LAYOUTS),
               "mlayout": rng.choice(LAYOUTS), "lines": rng.random() < 0.6, "lmap": lmap,
               "mdtype": "int64" if lmap else rng.choice(["int64", "int32", "uint8", "uint16"]), "isolated": i % 25 == 0,
               # 64-bit surfaces far above 2**53: neighbouring values are distinct integers but equal as doubles
               "base": (rng.choice([2 ** 56, 2 ** 62, -(2 ** 62)]) if dtype == "int64" else 2 ** 63 if dtype == "uint64" else 0)
                       if rng.random() < 0.6 else 0}


def mk(case):
    dt = case["dtype"]
    fi = np.array(case["vals"], dtype=np.int64).reshape(case["shape"])
    a0 = (fi * 0.25).astype(dt) if dt.startswith("float") else fi.astype(dt)
    if case.get("base"):
        a0 = a0 + np.array(case["base"], dtype=dt)      # order-preserving, exact in 64-bit integers
        assert a0.dtype == np.dtype(dt)
    mk_ = case["markers"]
    if case.get("lmap"):
        mk_ = [case["lmap"][v - 1] if v else 0 for v in mk_]
    m0 = np.array(mk_, dtype=np.dtype(case["mdtype"])).reshape(case["shape"])
    nd = a0.ndim
    bcs = case["bc"]
    if bcs in ("cross", "none"):
        bc0 = cross(nd)
    elif bcs == "box":
        bc0 = np.ones([3] * nd, int)
    elif bcs == "box5":
        bc0 = np.ones([5] * nd, int)
    else:
        bc0 = np.array(bcs["vals"]).reshape(bcs["shape"])
    return a0, fi, m0, bc0


def run_case(ctx, case):
    mh = ctx.mh
    a0, fi, m0, bc0 = mk(case)
    a = apply_layout(a0, case["layout"], fill=1)
    m = apply_layout(m0, case["mlayout"], fill=1)
    ka, km = a.copy(), m.copy()
    want_lines = case["lines"]
    bc_arg = None if case["bc"] == "none" else bc0.astype(bool)
    if case.get("isolated"):
        # fresh process with a dirty heap: uninitialised outputs show up as differences
        spec = lambda arr, lay: ({"arr": str(arr.dtype), "shape": list(arr.shape), "vals": [v.item() for v in arr.reshape(-1)]}, lay)
        req = {"id": 0, "fn": "cwatershed", "args": [spec(a0, 0)[0], spec(m0, 0)[0]],
               "kwargs": {"Bc": spec(bc_arg, 0)[0] if bc_arg is not None else None, "return_lines": want_lines},
               "layouts": [case["layout"], case["mlayout"]], "predirty": 0xA5}
        out = isolate.run_batch(ctx.lib, [req], perturb=165)[0]
        if "res" not in out or out.get("res") is None:
            return Result(False, True, {"why": "isolated worker failed", "out": out})
        r = out["res"]
        if want_lines:
            gl, ll = r["seq"][0]["vals"], r["seq"][1]["vals"]
        else:
            gl, ll = r["vals"], None
    else:
        got = mh.cwatershed(a, m, Bc=bc_arg, return_lines=want_lines) if bc_arg is not None else \
            mh.cwatershed(a, m, return_lines=want_lines)
        if not (np.array_equal(a, ka) and np.array_equal(m, km)):
            return Result(False, True, {"why": "input modified"})
        if want_lines:
            W, L = got
            if L.dtype != bool or L.shape != a0.shape:
                return Result(False, True, {"why": "lines dtype/shape"})
            ll = [int(v) for v in L.reshape(-1)]
        else:
            W, ll = got, None
        if W.dtype != np.int64 or W.shape != a0.shape:
            return Result(False, True, {"why": "dtype/shape", "got": [str(W.dtype), list(W.shape)]})
        gl = [int(v) for v in W.reshape(-1)]
    mi = m0.astype(np.int64)
    if case.get("lmap"):
        back = {big: k + 1 for k, big in enumerate(case["lmap"])}
        back[0] = 0
        gl = [back.get(v, v) for v in gl]          # a label that is none of the markers' stays as it is (and fails below)
        mi = np.array(case["markers"], dtype=np.int64).reshape(case["shape"])
    ref_res, ref_lines = flood_ref(list(a0.shape), [int(v) for v in fi.reshape(-1)], [int(v) for v in mi.reshape(-1)],
                                   offsets_of(bc0), want_lines)
    if gl != ref_res:
        return Result(False, True, {"why": "labels != seeded priority flooding (definition)", "want": ref_res, "got": gl,
                                    "isolated": bool(case.get("isolated"))})
    if want_lines and ll != ref_lines:
        return Result(False, True, {"why": "lines != definition", "want": ref_lines, "got": ll, "isolated": bool(case.get("isolated"))})
    mres, mlines, sres, slines = ctx.model.ints("cwatershed %d %s %s %s" % (1 if want_lines else 0, enc_arr(fi), enc_arr(mi), enc_arr(bc0)))
    if gl != mres or (want_lines and ll != mlines):
        return Result(False, True, {"why": "implementation != model", "model": mres, "got": gl})
    if mres != sres or mlines != slines:
        return Result(False, True, {"why": "model (margin shortcut) != flood with explicit bounds checks", "model": mres, "spec": sres})
    nm = sum(1 for v in case["markers"] if v)
    return Result(True, nm >= 1 and len(set(case["vals"])) > 1, None,
                  "%dD/%s/%s%s" % (a0.ndim, case["bc"] if isinstance(case["bc"], str) else "arb",
                                   "lines" if want_lines else "nolines", "/isolated" if case.get("isolated") else ""))


def shrink(ctx, case):
    for key in ("layout", "mlayout"):
        if case.get(key, "C") != "C":
            c = dict(case); c[key] = "C"; yield c
    if case.get("isolated"):
        c = dict(case); c["isolated"] = False; yield c
