"""C16: thresholds optimise their criteria and depend only on the histogram."""
from fractions import Fraction
import numpy as np
from vlib.harness import Result, enc_list, apply_layout, LAYOUTS
from vlib import gen

ID = "C16"
RULE = ("random unsigned images (uint8/16/32, bool) of 1-3 D x 7 layouts with histogram families: dense, sparse with gaps, two-level, "
        "constant, zero-dominated, ties for the optimum (symmetric), up to 65536 levels; ignore_zeros on/off. otsu: the returned T "
        "must maximise the EXACT rational between-class variance (a relative gap < 1e-12 to the maximum is classified as a "
        "floating-point tie and recorded) and equal the Q model up to such ties; rc: compared with the Q model (1e-9) and bounded by "
        "the occurring levels; both re-evaluated on a pixel permutation and a reshape of the image (must be identical). gbernsen/"
        "bernsen: every pixel against the GENERATED element function applied to rank-filter max/min, and against the stated rule; "
        "soft_threshold: exact quarter-integers against the GENERATED element function. Non-trivial: >=2 occupied levels")
NOT_PROVED = ["floating-point evaluation of otsu/rc (double) vs the exact rational model: ties within 1e-12 relative are accepted",
              "bernsen's circle_se and the rank filters are taken from the implementation (C07 covers rank_filter)"]
BUDGET_S = {"quick": 100, "thorough": 900}


def rand_hist_image(rng, dtype):
    top = {"bool": 1, "uint8": 255, "uint16": 65535, "uint32": 65535}[dtype]
    fam = rng.choice(["dense", "sparse", "two", "const", "zeros", "sym", "ramp"])
    n = rng.choice([1, 2, 5, 17, 60, 200])
    if fam == "dense":
        hi = rng.choice([1, 3, 9, min(top, 40)])
        vals = [rng.randint(0, min(hi, top)) for _ in range(n)]
    elif fam == "sparse":
        levels = sorted(rng.sample(range(0, top + 1), min(rng.choice([2, 3, 5]), top + 1)))
        vals = [rng.choice(levels) for _ in range(n)]
    elif fam == "two":
        a, b = rng.randint(0, top), rng.randint(0, top)
        vals = [rng.choice([a, b]) for _ in range(n)]
    elif fam == "const":
        vals = [rng.randint(0, top)] * n
    elif fam == "zeros":
        vals = [0 if rng.random() < 0.8 else rng.randint(0, min(top, 9)) for _ in range(n)]
    elif fam == "sym":
        k = rng.choice([1, 2, 3])
        half = [rng.randint(0, min(top, 6)) for _ in range(max(1, n // 2))]
        m = max(half) if half else 0
        vals = half + [min(top, 2 * k + 6) - v for v in half]
        vals = [max(0, min(top, v)) for v in vals]
    else:
        vals = list(range(min(n, top + 1)))
    return vals


def cases(ctx):
    rng = ctx.rng
    n = 700 if ctx.tier == "quick" else 8000
    for i in range(n):
        kind = rng.choice(["otsu", "otsu", "rc", "rc", "gbernsen", "bernsen", "soft"])
        if kind in ("otsu", "rc"):
            if rng.random() < 0.08:
                # heavy histograms: a few 16-bit levels with very large counts (level * count beyond 2**32, the range of the
                # histogram's own integer type); given as runs, the image is built with np.repeat
                levels = sorted(rng.sample([0, 1, 7, 255, 30000, 32768, 40000, 65535], rng.choice([2, 3, 4])))
                runs = [[lv, rng.choice([1, 1000, 70000, 131072, 200000])] for lv in levels]
                yield {"kind": kind, "dtype": "uint16", "runs": runs, "nd": 1, "ignore_zeros": rng.random() < 0.4,
                       "layout": "C", "perm_seed": rng.randrange(1 << 30)}
                continue
            dtype = rng.choice(["uint8", "uint8", "uint16", "uint32", "bool"])
            vals = rand_hist_image(rng, dtype)
            nd = rng.choice([1, 2, 3])
            yield {"kind": kind, "dtype": dtype, "vals": vals, "nd": nd, "ignore_zeros": rng.random() < 0.4,
                   "layout": rng.choice(LAYOUTS), "perm_seed": rng.randrange(1 << 30)}
        elif kind in ("gbernsen", "bernsen"):
            h, w = rng.randint(1, 7), rng.randint(1, 7)
            dtype = rng.choice(["uint8", "uint16"])
            pal = [rng.randint(0, 255) for _ in range(rng.choice([2, 4, 9]))]
            vals = [rng.choice(pal) for _ in range(h * w)]
            c = {"kind": kind, "dtype": dtype, "shape": [h, w], "vals": vals, "ct": rng.choice([0, 1, 15, 60, 200]),
                 "g": rng.choice([0, 64, 128, 200]), "layout": rng.choice(LAYOUTS)}
            if kind == "gbernsen":
                sh = rng.choice([[3, 3], [1, 3], [3, 1], [5, 5], [1, 1]])
                se = [1 if rng.random() < 0.8 else 0 for _ in range(sh[0] * sh[1])]
                se[(sh[0] // 2) * sh[1] + sh[1] // 2] = 1
                c["se"] = {"shape": sh, "vals": se}
            else:
                c["radius"] = rng.choice([1, 2, 3])
            yield c
        else:
            N = rng.randint(1, 12)
            if rng.random() < 0.5:
                yield {"kind": "soft", "dtype": rng.choice(["float64", "float32"]), "vals": [rng.randint(-40, 40) for _ in range(N)],
                       "t4": rng.choice([0, 1, 4, 10, 17]), "layout": rng.choice(["C", "strided", "negstride"])}
            else:
                # integer images (the property's quantifier is about unsigned images): whole values and a whole threshold, the
                # dtype's extremes among them
                dt = rng.choice(["uint8", "uint16", "uint32", "uint64", "int8", "int16", "int32", "int64"])
                lo, hi = gen.INT_INFO[dt]
                pool = [lo, lo + 1, hi, hi - 1, 0, 1, 16, 17] + [rng.randint(max(lo, -40), min(hi, 200)) for _ in range(6)]
                yield {"kind": "soft", "dtype": dt, "vals": [4 * rng.choice(pool) for _ in range(N)],
                       "t4": 4 * rng.choice([0, 1, 16, 17, 100]), "layout": rng.choice(["C", "strided", "negstride"]),
                       "tkind": rng.choice(["int", "int", "npint"])}


def shape_for(n, nd, rng_seed):
    if nd == 1 or n < 2:
        return [n]
    rs = np.random.RandomState(rng_seed)
    divs = [d for d in range(1, n + 1) if n % d == 0]
    a = int(rs.choice(divs))
    if nd == 2:
        return [a, n // a]
    rest = n // a
    divs2 = [d for d in range(1, rest + 1) if rest % d == 0]
    b = int(rs.choice(divs2))
    return [a, b, rest // b]


def exact_sigmas(hist):
    """exact rational between-class variance (times N^2) for every T, incrementally"""
    tot = sum(hist)
    wtot = sum(i * h for i, h in enumerate(hist))
    out = []
    nB = sB = 0
    for T, h in enumerate(hist):
        nB += h
        sB += T * h
        nO = tot - nB
        if nB == 0 or nO == 0:
            out.append(Fraction(0))
        else:
            d = sB * nO - (wtot - sB) * nB      # nB*nO*(sB/nB - sO/nO)^2 = d^2 / (nB*nO)
            out.append(Fraction(d * d, nB * nO))
    return out


def rc_exact(hist):
    """the rule of rc() evaluated in exact arithmetic (used beyond the model's size limit)"""
    tot = sum(hist)
    wtot = sum(i * h for i, h in enumerate(hist))
    maxt = max(i for i, h in enumerate(hist) if h)
    res = Fraction(maxt)
    t = 0
    nB = sB = 0
    while t < min(maxt, res):
        nB += hist[t]
        sB += t * hist[t]
        if nB and (tot - nB):
            res = (Fraction(sB, nB) + Fraction(wtot - sB, tot - nB)) / 2
        t += 1
    return float(res)


def run_case(ctx, case):
    mh = ctx.mh
    kind = case["kind"]
    if kind in ("otsu", "rc"):
        dtype = case["dtype"]
        if "runs" in case:
            a0 = np.repeat(np.array([r[0] for r in case["runs"]], dtype=np.dtype(dtype)), [r[1] for r in case["runs"]])
            vals = None
            n = int(a0.size)
        else:
            vals = case["vals"]
            n = len(vals)
            a0 = np.array(vals, dtype=bool if dtype == "bool" else np.dtype(dtype)).reshape(shape_for(n, case["nd"], case["perm_seed"]))
        a = apply_layout(a0, case["layout"], fill=1)
        keep = a.copy()
        iz = case["ignore_zeros"]
        fn = mh.otsu if kind == "otsu" else mh.rc
        got = fn(a, ignore_zeros=iz)
        if not np.array_equal(a, keep):
            return Result(False, True, {"why": "input modified"})
        # depends only on the histogram: permute pixels, reshape
        rs = np.random.RandomState(case["perm_seed"])
        perm = a0.reshape(-1)[rs.permutation(n)]
        got_p = fn(perm, ignore_zeros=iz)
        got_r = fn(np.ascontiguousarray(a0).reshape(-1, 1), ignore_zeros=iz)
        if not (got == got_p == got_r):
            return Result(False, True, {"why": "%s changed under a pixel permutation / reshape" % kind, "got": [float(got), float(got_p), float(got_r)]})
        if vals is None:
            hist = [int(v) for v in np.bincount(a0.astype(np.int64))]
        else:
            hist = [0] * (max(int(v) for v in vals) + 1)
            for v in vals:
                hist[int(v)] += 1
        if dtype == "bool":
            hist = (hist + [0, 0])[:2]
        if iz:
            if kind == "rc" and hist[0] == n:
                return Result(got == 0, False, None if got == 0 else {"why": "rc of an all-zero image with ignore_zeros"}, "rc/allzero")
            hist = [0] + hist[1:]
        if kind == "otsu":
            T = int(got)
            sig = exact_sigmas(hist)
            if len(hist) <= 300:
                mo, ms = ctx.model.ints("otsu %s" % enc_list(hist))[0]
                if mo != ms:
                    return Result(False, True, {"why": "otsu model != otsu_spec", "model": mo, "spec": ms})
            else:
                mo = sig.index(max(sig))
            best = max(sig)
            if not (0 <= T < max(1, len(hist))):
                return Result(False, True, {"why": "otsu out of range", "got": T})
            gap = 0 if best == 0 else float((best - sig[T]) / best)
            if gap > 1e-12:
                return Result(False, True, {"why": "otsu does not maximise the between-class variance", "got": T, "argmax": sig.index(best),
                                            "relative_gap": gap, "hist": hist if len(hist) < 40 else "long"})
            if T != mo:
                ctx.stats["otsu_fp_ties"] = ctx.stats.get("otsu_fp_ties", 0) + 1
                gap2 = 0 if best == 0 else float(abs(sig[T] - sig[mo]) / best)
                if gap2 > 1e-12:
                    return Result(False, True, {"why": "otsu != model beyond a floating-point tie", "got": T, "model": mo})
            return Result(True, sum(1 for h in hist if h) >= 2, None, "otsu/%s%s" % (dtype, "/iz" if iz else ""))
        if len(hist) <= 300:
            num, den = ctx.model.ints("rc %s" % enc_list(hist))[0]
            want = num / den
        else:
            want = rc_exact(hist)
        occ = [i for i, h in enumerate(hist) if h]
        g = float(got)
        if abs(g - want) > 1e-9 * max(1.0, abs(want)):
            return Result(False, True, {"why": "rc != Riddler-Calvard rule (Q model)", "want": want, "got": g, "hist": hist if len(hist) < 40 else "long"})
        if occ and not (occ[0] - 1e-9 <= g <= occ[-1] + 1e-9):
            return Result(False, True, {"why": "rc outside [smallest, largest] occurring level", "got": g, "levels": [occ[0], occ[-1]]})
        return Result(True, len(occ) >= 2, None, "rc/%s%s" % (dtype, "/iz" if iz else ""))
    if kind in ("gbernsen", "bernsen"):
        from mahotas import thresholding as th
        from mahotas.morph import circle_se
        a0 = np.array(case["vals"], dtype=np.dtype(case["dtype"])).reshape(case["shape"])
        a = apply_layout(a0, case["layout"], fill=1)
        keep = a.copy()
        ct, g = case["ct"], case["g"]
        if kind == "gbernsen":
            se = np.array(case["se"]["vals"], dtype=bool).reshape(case["se"]["shape"])
            got = th.gbernsen(a, se, ct, g)
        else:
            se = circle_se(case["radius"])
            got = th.bernsen(a, case["radius"], ct, g)
        if not np.array_equal(a, keep):
            return Result(False, True, {"why": "input modified"})
        if got.shape != a0.shape:
            return Result(False, True, {"why": "shape"})
        sec = se.astype(a0.dtype)
        fmax = mh.rank_filter(a0, sec, int(se.sum()) - 1)
        fmin = mh.rank_filter(a0, sec, 0)
        gl = [bool(v) for v in got.reshape(-1)]
        for i, (f, mx, mn) in enumerate(zip(a0.reshape(-1), fmax.reshape(-1), fmin.reshape(-1))):
            f, mx, mn = int(f), int(mx), int(mn)
            mid2 = mx + mn        # twice the local mid-grey
            rule = (2 * f < mid2) if (mx - mn) >= ct else (mid2 < 2 * g)
            if gl[i] != rule:
                return Result(False, True, {"why": "gbernsen: pixel %d does not follow the stated rule (contrast %d vs threshold %d)" % (i, mx - mn, ct),
                                            "f": f, "fmax": mx, "fmin": mn, "gthresh": g, "got": gl[i], "rule": rule})
            m = ctx.model.ints("gbernsen_px %d 1 %d 1 %d 1 %d 1 %d 1" % (f, mx, mn, ct, g))[0][0]
            if gl[i] != bool(m):
                return Result(False, True, {"why": "gbernsen != generated element function at %d" % i})
        return Result(True, len(set(case["vals"])) > 1, None, "%s/%s" % (kind, "hi" if ct <= 15 else "lo"))
    if kind == "soft":
        from mahotas import thresholding as th
        if case["dtype"].startswith("float"):
            a0 = (np.array(case["vals"], dtype=np.int64) * 0.25).astype(case["dtype"])
            t = case["t4"] * 0.25
        else:
            a0 = np.array([v // 4 for v in case["vals"]], dtype=case["dtype"])
            t = case["t4"] // 4
            if case.get("tkind") == "npint":
                t = np.int64(t)
        a = apply_layout(a0, case["layout"], fill=1)
        keep = a.copy()
        got = th.soft_threshold(a, t)
        if not np.array_equal(a, keep):
            return Result(False, True, {"why": "input modified"})
        if got.dtype != a0.dtype or got.shape != a0.shape:
            return Result(False, True, {"why": "soft_threshold: dtype/shape of the result", "got": str(got.dtype), "want": str(a0.dtype)})
        for i, v4 in enumerate(case["vals"]):
            num, den = ctx.model.ints("soft_px %d 4 %d 4" % (v4, case["t4"]))[0]
            want = num / den
            t4 = case["t4"]
            rule = 0.0 if abs(v4) <= t4 else ((v4 - t4) / 4 if v4 > 0 else (v4 + t4) / 4)
            g = float(got.reshape(-1)[i])
            if not case["dtype"].startswith("float"):
                # exact integers (a 64-bit value does not survive float())
                gi = int(got.reshape(-1)[i])
                if 4 * gi * den != 4 * num or 4 * gi != (0 if abs(v4) <= t4 else (v4 - t4 if v4 > 0 else v4 + t4)):
                    return Result(False, True, {"why": "soft_threshold[%d] != shrink by tval" % i, "x": v4 // 4, "t": int(t), "got": gi,
                                                "dtype": case["dtype"]})
                continue
            if g != want or g != rule:
                return Result(False, True, {"why": "soft_threshold[%d] != shrink by tval" % i, "x": v4 / 4, "t": t, "got": g, "rule": rule, "model": want})
        return Result(True, True, None, "soft")
    raise ValueError(kind)


def shrink(ctx, case):
    if case.get("layout", "C") != "C":
        c = dict(case); c["layout"] = "C"; yield c
