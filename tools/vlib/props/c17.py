"""C17: wavelet transforms reconstruct perfectly, conserve energy and are linear."""
from fractions import Fraction
import numpy as np
from vlib.harness import Result, enc_arr, apply_layout, LAYOUTS
from vlib import gen

ID = "C17"
RULE = ("integer-valued 2-D images with even sides 2..16 (thorough: ..64), square and non-square, dtypes float64/float32/int32/"
        "uint8 x 7 layouts: haar (preserve_energy off) == extracted Coq model exactly; with preserve_energy == model/2; ihaar(haar(f)) "
        "== f exactly; sum of squares conserved exactly; D2 == unnormalised Haar exactly; linearity exact; input untouched unless "
        "inline=True (and transformed in place when it is). Daubechies D2..D20: every row pass of the extracted Q model (decimal "
        "table values) vs the implementation (rel. 1e-5: float32 coefficients), idaubechies(daubechies(wavelet_center(f))) decentered "
        "== f (1e-3), linearity (1e-9); wavelet_center shape/offset == model, wavelet_decenter(wavelet_center(f)) == f exactly. "
        "Non-trivial: image not constant")
NOT_PROVED = ["Haar: rows and the full 2-D two-pass inverse are theorems (ihaar2d_haar2d); perfect reconstruction for D4..D20 is not a Coq theorem: the tables are proved orthonormal within 1e-5 [fin] and the "
              "reconstruction is checked numerically on every case",
              "floating-point rounding of the transforms on non-integer data is outside the exact models"]
BUDGET_S = {"quick": 100, "thorough": 900}
CODES = ["D%d" % k for k in range(2, 21, 2)]


def cases(ctx):
    rng = ctx.rng
    n = 220 if ctx.tier == "quick" else 2500
    top = 16 if ctx.tier == "quick" else 64
    for i in range(n):
        kind = rng.choice(["haar", "haar", "daub", "center"])
        if kind == "center":
            sh = [rng.randint(1, 12), rng.randint(1, 12)]
            yield {"kind": kind, "shape": sh, "vals": [rng.randint(-9, 9) for _ in range(gen.size(sh))],
                   "border": rng.choice([0, 0, 1, 3, 8]), "dtype": rng.choice(["float64", "uint8", "float32"])}
            continue
        h = 2 * rng.randint(1, top // 2 if i % 5 == 0 else 4)
        w = 2 * rng.randint(1, top // 2 if i % 7 == 0 else 4)
        dt = rng.choice(["float64", "float64", "float32", "int32", "uint8"])
        lo = 0 if dt == "uint8" else -9
        vals = [rng.randint(lo, 9) for _ in range(h * w)]
        vals2 = [rng.randint(lo, 9) for _ in range(h * w)]
        yield {"kind": kind, "shape": [h, w], "vals": vals, "vals2": vals2, "dtype": dt, "layout": rng.choice(LAYOUTS),
               "code": rng.choice(CODES), "pe": rng.random() < 0.5}


def q_rows(ctx, cmd, code, rows):
    """apply the extracted Q row model to every row (list of lists of Fractions)"""
    out = []
    for row in rows:
        args = " ".join("%d %d" % (f.numerator, f.denominator) for f in row)
        flat = ctx.model.ints("%s %d %d %s" % (cmd, code, len(row), args))[0]
        out.append([Fraction(flat[2 * i], flat[2 * i + 1]) for i in range(len(row))])
    return out


def run_case(ctx, case):
    mh = ctx.mh
    kind = case["kind"]
    if kind == "center":
        a0 = np.array(case["vals"], dtype=np.dtype(case["dtype"]) if case["dtype"] != "uint8" else np.int64).reshape(case["shape"])
        if case["dtype"] == "uint8":
            a0 = np.abs(a0).astype(np.uint8)
        b = case["border"]
        c = mh.wavelet_center(a0, border=b)
        flat = ctx.model.ints("center_geom %d %d %s" % (b, a0.ndim, " ".join(str(s) for s in a0.shape)))[0]
        exp = [[flat[2 * i], flat[2 * i + 1]] for i in range(a0.ndim)]
        if list(c.shape) != [e[0] for e in exp]:
            return Result(False, True, {"why": "wavelet_center shape != model", "got": list(c.shape), "model": [e[0] for e in exp]})
        sl = tuple(slice(e[1], e[1] + s) for e, s in zip(exp, a0.shape))
        inside = np.zeros(c.shape, bool)
        inside[sl] = True
        if not np.array_equal(c[sl], a0) or (c[~inside] != 0).any():
            return Result(False, True, {"why": "wavelet_center does not embed the image at the model's offset with a zero border"})
        d = mh.wavelet_decenter(c, a0.shape, border=b)
        if not (d.shape == a0.shape and np.array_equal(d, a0)):
            return Result(False, True, {"why": "wavelet_decenter(wavelet_center(f)) != f"})
        if any(e[1] <= b for e in exp):
            return Result(False, True, {"why": "border smaller than requested", "offsets": [e[1] for e in exp], "border": b})
        return Result(True, True, None, "center/b%d" % b)
    h, w = case["shape"]
    dt = np.dtype(case["dtype"])
    a0 = np.array(case["vals"], dtype=np.int64).reshape(h, w).astype(dt)
    b0 = np.array(case["vals2"], dtype=np.int64).reshape(h, w).astype(dt)
    a = apply_layout(a0, case["layout"], fill=1)
    keep = a.copy()
    fi = a0.astype(np.int64)
    if kind == "haar":
        hu = mh.haar(a, preserve_energy=False)
        if not np.array_equal(a, keep):
            return Result(False, True, {"why": "haar modified its input with inline=False", "dtype": str(dt), "layout": case["layout"]})
        want = np.array(ctx.model.ints("haar2d %s" % enc_arr(fi))[0], dtype=np.float64).reshape(h, w)
        if hu.shape != (h, w) or not np.array_equal(np.asarray(hu, np.float64), want):
            return Result(False, True, {"why": "haar (unnormalised) != model", "shape": [h, w], "dtype": str(dt)})
        he = mh.haar(a)
        if not np.array_equal(np.asarray(he, np.float64), want / 2.0):
            return Result(False, True, {"why": "haar (energy preserving) != model / 2"})
        if float((np.asarray(he, np.float64) ** 2).sum()) != float((fi.astype(np.float64) ** 2).sum()):
            return Result(False, True, {"why": "energy-preserving haar does not conserve the sum of squares"})
        for pe in (True, False):
            back = mh.ihaar(mh.haar(a, preserve_energy=pe), preserve_energy=pe)
            if not np.array_equal(np.asarray(back, np.float64), fi.astype(np.float64)):
                return Result(False, True, {"why": "ihaar(haar(f)) != f", "preserve_energy": pe})
        d2 = mh.daubechies(a, "D2")
        if not np.array_equal(np.asarray(d2, np.float64), want):
            return Result(False, True, {"why": "D2 != unnormalised Haar"})
        sab = mh.haar((a0.astype(np.float64) + b0.astype(np.float64)), preserve_energy=False)
        if not np.array_equal(sab, np.asarray(hu, np.float64) + np.asarray(mh.haar(b0, preserve_energy=False), np.float64)):
            return Result(False, True, {"why": "haar is not additive"})
        if dt.kind == "f":
            c = np.ascontiguousarray(a0).copy()
            r = mh.haar(c, preserve_energy=False, inline=True)
            if not (np.array_equal(np.asarray(c, np.float64), want) and np.shares_memory(r, c)):
                return Result(False, True, {"why": "inline=True did not transform the input in place"})
            # in place on every writable layout of the same data (reversed, strided, offset, Fortran views)
            if case["layout"] != "readonly":
                v = apply_layout(a0, case["layout"], fill=1)
                r = mh.haar(v, preserve_energy=False, inline=True)
                if not np.array_equal(np.asarray(r, np.float64), want) or not np.array_equal(np.asarray(v, np.float64), want):
                    return Result(False, True, {"why": "haar(inline=True) on a %s view != model (or the view was not transformed)" % case["layout"]})
                # ... and back: the inverse transform in place on a view of the coefficients, with the memory around the view
                # (the rest of the parent buffer) left alone
                wv = apply_layout(np.asarray(want, dtype=dt), case["layout"], fill=1)
                parent = wv.base if isinstance(wv.base, np.ndarray) else None
                outside = (float(parent.astype(np.float64).sum()) - float(wv.astype(np.float64).sum())) if parent is not None else None
                r = mh.ihaar(wv, preserve_energy=False, inline=True)
                even = [s - s % 2 for s in a0.shape]
                ref = a0.astype(np.float64)[:even[0], :even[1]]
                if not np.array_equal(np.asarray(r, np.float64)[:even[0], :even[1]], ref) or \
                        not np.array_equal(np.asarray(wv, np.float64)[:even[0], :even[1]], ref):
                    return Result(False, True, {"why": "ihaar(inline=True) on a %s view of haar(f) does not give f back" % case["layout"]})
                if parent is not None:
                    now = float(parent.astype(np.float64).sum()) - float(wv.astype(np.float64).sum())
                    if now != outside:
                        return Result(False, True, {"why": "ihaar(inline=True) on a %s view wrote outside the view" % case["layout"]})
            else:
                # inline=True asks for the transform to be written into the argument: a read-only array cannot take it, the
                # call must fail and leave the array as it was (haar, ihaar, daubechies, idaubechies)
                for name, call in (("haar", lambda x: mh.haar(x, preserve_energy=False, inline=True)),
                                   ("ihaar", lambda x: mh.ihaar(x, preserve_energy=False, inline=True)),
                                   ("daubechies", lambda x: mh.daubechies(x, "D4", inline=True)),
                                   ("idaubechies", lambda x: mh.idaubechies(x, "D4", inline=True))):
                    v = apply_layout(a0, "readonly", fill=1)
                    before = v.copy()
                    try:
                        call(v)
                        raised = False
                    except (ValueError, TypeError, RuntimeError):
                        raised = True
                    if not np.array_equal(v, before):
                        return Result(False, True, {"why": "%s(inline=True) wrote into a read-only array" % name, "raised": raised})
                    if not raised:
                        return Result(False, True, {"why": "%s(inline=True) accepted a read-only array" % name})
            # array-likes that expose their storage without being ndarrays (memoryview, ctypes, __array__): inline=False must
            # work on a copy -- the caller's storage is untouched and the result is the same
            import ctypes
            base = np.ascontiguousarray(a0.astype(np.float64))
            kb = base.copy()

            class Box:
                def __init__(self, arr):
                    self.arr = arr

                def __array__(self, dtype=None, copy=None):
                    return self.arr
            ct = ((ctypes.c_double * w) * h)()
            np.ctypeslib.as_array(ct)[...] = base
            for name, obj, back in (("memoryview", memoryview(base), lambda: base), ("__array__ container", Box(base), lambda: base),
                                    ("ctypes array", ct, lambda: np.ctypeslib.as_array(ct))):
                for fn in (lambda o: mh.haar(o, preserve_energy=False), lambda o: mh.daubechies(o, "D2")):
                    try:
                        rr = fn(obj)
                    except (TypeError, ValueError, AttributeError):
                        continue        # refusing an array-like is fine; silently overwriting it is not
                    if not np.array_equal(back(), kb):
                        return Result(False, True, {"why": "a wavelet transform with inline=False overwrote the storage of its %s argument" % name})
                    if not np.array_equal(np.asarray(rr, np.float64), want):
                        return Result(False, True, {"why": "wavelet transform of a %s != model" % name})
        return Result(True, len(set(case["vals"])) > 1, None, "haar/%s/%s" % (dt, "big" if max(h, w) > 8 else "small"))
    # Daubechies
    code = case["code"]
    ci = CODES.index(code)
    d = mh.daubechies(a, code)
    if not np.array_equal(a, keep):
        return Result(False, True, {"why": "daubechies modified its input with inline=False", "dtype": str(dt)})
    if h * w <= 64:
        rows = [[Fraction(int(v)) for v in row] for row in fi]
        r1 = q_rows(ctx, "wavelet_row", ci, rows)
        cols = [list(c) for c in zip(*r1)]
        r2 = q_rows(ctx, "wavelet_row", ci, cols)
        want = np.array([[float(v) for v in col] for col in r2]).T
        tol = 1e-5 * max(1.0, float(np.abs(want).max()))
        if not np.allclose(np.asarray(d, np.float64), want, rtol=0, atol=tol if dt != np.float32 else 10 * tol):
            return Result(False, True, {"why": "daubechies %s != Q model of the two passes" % code,
                                        "maxdiff": float(np.abs(np.asarray(d, np.float64) - want).max())})
    # reconstruction after centring
    cen = mh.wavelet_center(a0.astype(np.float64), border=24)
    rec = mh.idaubechies(mh.daubechies(cen, code), code)
    back = mh.wavelet_decenter(rec, a0.shape, border=24)
    if not np.allclose(back, fi, rtol=0, atol=1e-3 * max(1.0, float(np.abs(fi).max()))):
        return Result(False, True, {"why": "idaubechies(daubechies(centered f)) != f for %s" % code,
                                    "maxdiff": float(np.abs(back - fi).max())})
    la = mh.daubechies(a0.astype(np.float64) * 3 + b0.astype(np.float64), code)
    lb = 3 * mh.daubechies(a0.astype(np.float64), code) + mh.daubechies(b0.astype(np.float64), code)
    if not np.allclose(la, lb, rtol=1e-9, atol=1e-9):
        return Result(False, True, {"why": "daubechies not linear"})
    return Result(True, len(set(case["vals"])) > 1, None, "daub/%s" % code)


def shrink(ctx, case):
    if case.get("layout", "C") != "C":
        c = dict(case); c["layout"] = "C"; yield c
