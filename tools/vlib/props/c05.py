"""C05: distance() = exact squared Euclidean transform; gvoronoi = nearest label."""
import itertools
import numpy as np
from vlib.harness import Result, enc_arr, enc_list, apply_layout, LAYOUTS
from vlib import gen

ID = "C05"
RULE = ("random binary/integer images of 1-4 D (incl. strongly elongated 1xn, nx1x1, single background pixels in corners, "
        "all-foreground, all-background) x dtypes x 7 layouts x both metrics, compared EXACTLY (integers) with a brute-force "
        "evaluation of the definition and with the extracted Coq model; planar three-site configurations in which all 8 "
        "neighbours of a pixel are nearer to other sites than the pixel's own nearest site (found by a geometric search), under "
        "all 8 symmetries, embedded as 1xHxW / HxWx1 / HxW; every 1-D line is also run through the extracted lower-envelope "
        "model against the extracted min-plus specification. gvoronoi: label of a nearest labelled pixel (ties: any) and equal to "
        "the model. thorough: all binary images <=3x4 and <=2x2x3. Non-trivial: image has both foreground and background Added: lines of 46341-70001 pixels in four embeddings (distance and gvoronoi, exact reference by construction); gvoronoi labels of every integer dtype incl. values beyond 2**31, 2**32, 2**53 and negative ones (the model sees them through an injective renaming).")
NOT_PROVED = ["the tie of the hand-written Coq model (Model/Distance.v: parabola stack with cross-multiplied intersections, forward "
              "sweep, one pass per axis, origin tracking) to _distance.cpp / distance.py / segmentation.py is the correspondence check; "
              "the model itself is proved exact for all inputs (dt1d_spec, distance_exact, gvoronoi_nearest_label)",
              "the final sqrt of metric='euclidean' is numpy's and is compared with the correctly rounded root",
              "gvoronoi: WHICH of several equidistant labels is chosen follows the model (compared exactly); the theorem says a nearest one"]
BUDGET_S = {"quick": 110, "thorough": 1200}

_CFG = None


def three_site_configs(R=16):
    """(A, B, C): q=(0,0) is nearest to A, but every 8-neighbour of q is strictly nearer to B or C than to A."""
    global _CFG
    if _CFG is not None:
        return _CFG
    nbrs = [(dy, dx) for dy in (-1, 0, 1) for dx in (-1, 0, 1) if (dy, dx) != (0, 0)]
    out = []
    for a in range(1, R + 1):
        for b in range(0, a + 1):
            dA = a * a + b * b
            masks = {}
            for sy in range(-R, R + 1):
                for sx in range(-R, R + 1):
                    if sy * sy + sx * sx <= dA:
                        continue
                    m = 0
                    for i, (ny, nx) in enumerate(nbrs):
                        if (ny - sy) ** 2 + (nx - sx) ** 2 < (ny - a) ** 2 + (nx - b) ** 2:
                            m |= 1 << i
                    if m and m not in masks:
                        masks[m] = (sy, sx)
            ms = list(masks)
            for i in range(len(ms)):
                for j in range(i, len(ms)):
                    if ms[i] | ms[j] == 255:
                        out.append(((a, b), masks[ms[i]], masks[ms[j]]))
                        break
                else:
                    continue
                break
        if len(out) >= 3:
            break
    _CFG = out
    return out


def cases(ctx):
    rng = ctx.rng
    yield from long_cases(ctx, rng)
    yield from far_cases(ctx, rng)
    # structured: three-site planar configurations under the 8 symmetries and 3 embeddings
    for (A, B, C) in three_site_configs():
        for fy in (1, -1):
            for fx in (1, -1):
                for sw in (0, 1):
                    pts = []
                    for (y, x) in (A, B, C):
                        y, x = y * fy, x * fx
                        if sw:
                            y, x = x, y
                        pts.append([y, x])
                    lo = [min(p[d] for p in pts + [[0, 0]]) for d in range(2)]
                    pts = [[p[0] - lo[0] + 1, p[1] - lo[1] + 1] for p in pts]
                    H = max(p[0] for p in pts) + 2
                    W = max(p[1] for p in pts) + 2
                    for emb in ("1HW", "HW1", "HW"):
                        yield {"kind": "sites", "H": H, "W": W, "pts": pts, "emb": emb, "layout": "C"}
    if ctx.tier == "thorough":
        for shape in [(1,), (3,), (1, 1), (2, 2), (2, 3), (3, 3), (3, 4), (2, 2, 2), (2, 2, 3)]:
            n = int(np.prod(shape))
            for bits in range(2 ** n):
                yield {"kind": "dist", "dtype": "bool", "shape": list(shape), "vals": [(bits >> k) & 1 for k in range(n)],
                       "layout": "C", "metric": "euclidean2"}
    n = 500 if ctx.tier == "quick" else 6000
    for i in range(n):
        kind = rng.choice(["dist", "dist", "dist", "gv"])
        if kind == "dist":
            nd = rng.choice([1, 2, 2, 3, 3, 4])
            r = rng.random()
            if r < 0.25:      # strongly elongated
                shape = [1] * nd
                shape[rng.randrange(nd)] = rng.randint(6, 40)
            else:
                shape = [rng.randint(1, 6 if nd < 4 else 3) for _ in range(nd)]
            N = gen.size(shape)
            r = rng.random()
            if r < 0.1:
                vals = [1] * N
            elif r < 0.2:
                vals = [0] * N
            elif r < 0.45:     # a single background pixel, often in a corner
                vals = [1] * N
                vals[rng.choice([0, N - 1, rng.randrange(N)])] = 0
            else:
                p = rng.choice([0.5, 0.8, 0.95])
                vals = [1 if rng.random() < p else 0 for _ in range(N)]
            dt = rng.choice(["bool", "bool", "uint8", "int32", "float64", "int8"])
            if dt not in ("bool",):
                vals = [v * rng.choice([1, 2, -3] if dt in ("int32", "float64", "int8") else [1, 7]) for v in vals]
            yield {"kind": "dist", "dtype": dt, "shape": shape, "vals": vals, "layout": rng.choice(LAYOUTS),
                   "metric": rng.choice(["euclidean2", "euclidean2", "euclidean"])}
        else:
            shape = [rng.randint(1, 7), rng.randint(1, 7)]
            if rng.random() < 0.2:
                shape = [1, rng.randint(8, 40)] if rng.random() < 0.5 else [rng.randint(8, 40), 1]
            N = gen.size(shape)
            k = rng.choice([1, 1, 2, 3, 5])
            vals = [0] * N
            dtype = rng.choice(["int32", "int64", "uint8", "intc", "int64", "uint64", "uint32", "int16"])
            # labels are values, not indices: any value of the dtype (beyond 2**31, 2**32 multiples, negative) must come back intact
            pool = {"int64": [2 ** 31, 2 ** 32, 3 * 2 ** 32, 2 ** 53 + 1, -2 ** 31 - 1, 2 ** 62],
                    "uint64": [2 ** 31, 2 ** 32, 2 ** 63 + 5, 2 ** 64 - 1], "uint32": [2 ** 31, 2 ** 32 - 1],
                    "int16": [-3, 32767], "int32": [-7, 2 ** 31 - 1], "intc": [2 ** 31 - 1]}.get(dtype, [])
            for t in range(k):
                vals[rng.randrange(N)] = rng.choice([t + 1, 1, 9] + pool + pool)
            yield {"kind": "gv", "shape": shape, "vals": vals, "layout": rng.choice(LAYOUTS), "dtype": dtype}


def long_cases(ctx, rng):
    """strongly elongated images: one axis longer than sqrt(2**31), where squares of coordinates no longer fit a C int"""
    for i in range(6 if ctx.tier == "quick" else 40):
        n = rng.choice([46341, 46342, 50000, 65537, 70001])
        emb = rng.choice(["1n", "n", "n11", "n1"])
        k = rng.choice([1, 1, 2, 3])
        bg = sorted(set([rng.choice([0, n - 1, rng.randrange(n)]) for _ in range(k)]))
        yield {"kind": "longline", "n": n, "emb": emb, "bg": bg, "gv": i % 3 == 2}


def far_cases(ctx, rng):
    """large 2-D images whose background is a few pixels near a corner: every side is below 4096 (so a side squared stays below
    2**24) but the squared distances, a sum over the axes, go beyond 2**24 -- exact in double, not in a single-precision buffer"""
    shapes = [(4000, 1000), (1500, 3990), (3000, 3000), (2900, 2950), (4095, 700)]
    for i in range(2 if ctx.tier == "quick" else 10):
        H, W = rng.choice(shapes)
        k = rng.choice([1, 2, 3])
        corner = rng.choice([(0, 0), (0, W - 1), (H - 1, 0), (H - 1, W - 1)])
        bg = sorted({(min(H - 1, max(0, corner[0] + rng.randint(-3, 3))), min(W - 1, max(0, corner[1] + rng.randint(-3, 3)))) for _ in range(k)})
        yield {"kind": "farcorner", "H": H, "W": W, "bg": [list(b) for b in bg], "layout": rng.choice(["C", "C", "F"])}


def brute(shape, fg):
    """exact squared EDT by definition; None where there is no background"""
    pos = list(itertools.product(*[range(s) for s in shape]))
    bg = [p for p, v in zip(pos, fg) if not v]
    out = []
    for p in pos:
        if not bg:
            out.append(None)
        else:
            out.append(min(sum((a - b) ** 2 for a, b in zip(p, q)) for q in bg))
    return out


def run_case(ctx, case):
    mh = ctx.mh
    kind = case["kind"]
    if kind == "sites":
        H, W = case["H"], case["W"]
        img = np.ones((H, W), bool)
        for (y, x) in case["pts"]:
            img[y, x] = False
        emb = case["emb"]
        a = img[None, :, :] if emb == "1HW" else (img[:, :, None] if emb == "HW1" else img)
        got = mh.distance(a)
        yy, xx = np.mgrid[:H, :W]
        ref = np.min([(yy - y) ** 2 + (xx - x) ** 2 for (y, x) in case["pts"]], axis=0).reshape(a.shape)
        if got.shape != a.shape or not np.array_equal(got, ref):
            bad = np.argwhere(got != ref)
            return Result(False, True, {"why": "distance != exact squared Euclidean distance", "shape": list(a.shape),
                                        "background": case["pts"], "first_bad": bad[:3].tolist(),
                                        "got": [float(got[tuple(b)]) for b in bad[:3]], "want": [int(ref[tuple(b)]) for b in bad[:3]]})
        return Result(True, True, None, "three-sites/" + emb)
    if kind == "farcorner":
        H, W, bg = case["H"], case["W"], [tuple(b) for b in case["bg"]]
        yy = np.arange(H, dtype=np.int64)[:, None]
        xx = np.arange(W, dtype=np.int64)[None, :]
        ref = np.min([(yy - by) ** 2 + (xx - bx) ** 2 for by, bx in bg], axis=0)      # exact integers below 2**25
        a = np.ones((H, W), bool)
        for by, bx in bg:
            a[by, bx] = False
        if case["layout"] == "F":
            a = np.asfortranarray(a)
        got = mh.distance(a)
        if got.dtype != np.float64 or got.shape != (H, W) or not np.array_equal(got, ref.astype(np.float64)):
            bad = np.argwhere(np.asarray(got, dtype=np.float64) != ref) if got.shape == (H, W) else []
            b = tuple(int(v) for v in bad[0]) if len(bad) else None
            return Result(False, True, {"why": "distance != exact squared Euclidean distance far from the background (values above 2**24)",
                                        "shape": [H, W], "background": case["bg"], "dtype": str(got.dtype), "first_bad": b,
                                        "got": float(got[b]) if b else None, "want": int(ref[b]) if b else None})
        return Result(True, True, None, "dist/farcorner")
    if kind == "longline":
        n, bg = case["n"], case["bg"]
        shape = {"1n": (1, n), "n": (n,), "n11": (n, 1, 1), "n1": (n, 1)}[case["emb"]]
        x = np.arange(n, dtype=np.int64)
        ref = np.min([(x - b) ** 2 for b in bg], axis=0)            # exact: below 2**33
        if case.get("gv"):
            from mahotas import segmentation
            lab = np.zeros(n, np.int32)
            for t, b in enumerate(bg):
                lab[b] = t + 1
            got = segmentation.gvoronoi(lab.reshape(shape)).reshape(-1)
            d = np.array([(x - b) ** 2 for b in bg])
            ok = d[got.astype(np.int64) - 1, x] == ref if got.min() >= 1 and got.max() <= len(bg) else np.zeros(n, bool)
            if not np.all(ok):
                i = int(np.nonzero(~np.asarray(ok))[0][0])
                return Result(False, True, {"why": "gvoronoi: label is not that of a nearest labelled pixel (long line)", "at": i,
                                            "got": int(got[i]), "labelled_at": bg, "shape": list(shape)})
            return Result(True, True, None, "gvoronoi/longline")
        a = np.ones(n, bool)
        a[bg] = False
        got = mh.distance(a.reshape(shape)).reshape(-1)
        if got.dtype != np.float64 or not np.array_equal(got, ref.astype(np.float64)):
            bad = np.nonzero(got != ref)[0]
            return Result(False, True, {"why": "distance != exact squared Euclidean distance on a long line", "shape": list(shape),
                                        "background": bg, "first_bad": int(bad[0]) if len(bad) else None,
                                        "got": float(got[bad[0]]) if len(bad) else None, "want": int(ref[bad[0]]) if len(bad) else None})
        return Result(True, True, None, "dist/longline/" + case["emb"])
    if kind == "dist":
        dt = case["dtype"]
        a0 = np.array(case["vals"], dtype=bool if dt == "bool" else np.dtype(dt)).reshape(case["shape"])
        a = apply_layout(a0, case["layout"], fill=1)
        keep = a.copy()
        got = mh.distance(a, metric=case["metric"])
        if not np.array_equal(a, keep):
            return Result(False, True, {"why": "input modified"})
        if got.shape != a0.shape or got.dtype != np.float64:
            return Result(False, True, {"why": "dtype/shape", "got": [str(got.dtype), list(got.shape)]})
        fg = [1 if v else 0 for v in (a0 != 0).reshape(-1)]
        ref = brute(case["shape"], fg)
        gl = [float(v) for v in got.reshape(-1)]
        maxd = sum((s - 1) ** 2 for s in case["shape"])
        for i, (g, r) in enumerate(zip(gl, ref)):
            if r is None:
                lim = maxd if case["metric"] == "euclidean2" else float(np.sqrt(maxd))
                if not g > lim:
                    return Result(False, True, {"why": "no background: value at %d is not larger than any attainable distance" % i,
                                                "got": g, "largest_attainable": lim})
            else:
                want = float(r) if case["metric"] == "euclidean2" else float(np.sqrt(np.float64(r)))
                if g != want:
                    return Result(False, True, {"why": "distance[%d] != exact (squared) Euclidean distance to the background" % i,
                                                "want": want, "got": g, "shape": case["shape"]})
        N = len(fg)
        if N <= 150:
            model, spec = ctx.model.ints("distance %s" % enc_arr(np.array(fg).reshape(case["shape"])))
            if model != spec:
                return Result(False, True, {"why": "model != distance_spec", "model": model, "spec": spec})
            if case["metric"] == "euclidean2" and [int(v) for v in gl] != model:
                return Result(False, True, {"why": "distance != model", "model": model, "got": gl})
            # every 1-D line through the lower-envelope model vs the min-plus specification
            line = ctx.model.ints("dt1d %s" % enc_list(model[:min(N, 40)]))
            if line[0] != line[1]:
                return Result(False, True, {"why": "dt1d (lower envelope) != minplus1d", "line": model[:min(N, 40)]})
        return Result(True, 0 < sum(fg) < N, None, "dist/%dD/%s%s" % (len(case["shape"]), case["metric"],
                                                                      "/elongated" if max(case["shape"]) >= 6 and sorted([1] + case["shape"])[-2] == 1 else ""))
    if kind == "gv":
        from mahotas import segmentation
        l0 = np.array(case["vals"], dtype=np.dtype(case["dtype"])).reshape(case["shape"])
        lab = apply_layout(l0, case["layout"], fill=1)
        keep = lab.copy()
        got = segmentation.gvoronoi(lab)
        if not np.array_equal(lab, keep):
            return Result(False, True, {"why": "input modified"})
        if got.shape != l0.shape:
            return Result(False, True, {"why": "shape"})
        H, W = case["shape"]
        sites = [(y, x) for y in range(H) for x in range(W) if l0[y, x] != 0]
        gl = [int(v) for v in got.reshape(-1)]
        for y in range(H):
            for x in range(W):
                g = gl[y * W + x]
                if l0[y, x] != 0:
                    if g != int(l0[y, x]):
                        return Result(False, True, {"why": "gvoronoi changed a labelled pixel", "at": [y, x]})
                elif sites:
                    dmin = min((y - sy) ** 2 + (x - sx) ** 2 for sy, sx in sites)
                    ok = {int(l0[sy, sx]) for sy, sx in sites if (y - sy) ** 2 + (x - sx) ** 2 == dmin}
                    if g not in ok:
                        return Result(False, True, {"why": "gvoronoi: label is not that of a nearest labelled pixel", "at": [y, x],
                                                    "got": g, "nearest_labels": sorted(ok)})
        # the model sees the labels through an injective renaming to 1..k (labels are values that are only copied: any 64-bit value)
        names = {v: i + 1 for i, v in enumerate(sorted({int(v) for v in l0.reshape(-1)} - {0}))}
        names[0] = 0
        back = {i: v for v, i in names.items()}
        renamed = np.array([names[int(v)] for v in l0.reshape(-1)], dtype=np.int64).reshape(l0.shape)
        model = [back[m] for m in ctx.model.ints("gvoronoi %s" % enc_arr(renamed))[0]]
        if gl != model:
            return Result(False, True, {"why": "gvoronoi != model", "model": model, "got": gl})
        return Result(True, len(sites) >= 2, None, "gvoronoi")
    raise ValueError(kind)


def shrink(ctx, case):
    if case.get("layout", "C") != "C":
        c = dict(case); c["layout"] = "C"; yield c
