"""C01: erosion / dilation = lattice definition, path independent."""
import itertools
import numpy as np
from vlib.harness import Result, enc_arr, DT_CODES, apply_layout, LAYOUTS, ROW_VIEWS
from vlib import gen

ID = "C01"
RULE = ("structured random (dtype x ndim 1-3 x shape x boundary-dense values x SE class x 7 layouts of the image x "
        "3 layouts of the element); thorough adds all boolean images <=3x4 x all 512 3x3 elements x {erode,dilate} x {C,F}. "
        "A case is non-trivial when the result is not constant or the element has >=2 members; distinct = distinct case dicts Added families: sparse elements up to 9x11 on images of 1-4 pixels per side; the default element (Bc=None) and the integer codes after another public call (extrema, label, open, cwatershed) in the same process; boolean 2-D views with contiguous rows (colcrop / rowskip / offset layouts); elements with a zero-length axis (views into non-zero memory).")
NOT_PROVED = ["the 2-D boolean fast path is a second executable model (Model/MorphFast.v) PROVED equal to the generic path "
              "(fast_path_is_generic); both models are hand-written from _morph.cpp and tied to the compiled code by the "
              "correspondence check (all layouts, row views)",
              "the offsets table of _filters.cpp is a third model (Model/OffsetsTable.v, per-axis arithmetic re-translated on every "
              "run) PROVED to present at every pixel the row of border-mapped window positions, and the logical retrieve of the kernel "
              "models is proved equal to that table access for C-ordered arrays (retrieve_is_table_access); that the compiled loops "
              "around the re-translated expressions are the recognised skeletons is the translator's verbatim match, not a theorem"]
BUDGET_S = {"quick": 100, "thorough": 1500}


def se_for(rng, dtype, ndim, ishape):
    lo, hi = gen.INT_INFO[dtype]
    kind = rng.choice(["cross", "box", "box5", "disk", "even", "huge", "empty", "arb", "arb", "nonflat", "nonflat", "withmin"])
    if dtype == "bool" and kind in ("nonflat", "withmin"):
        kind = "arb"
    regular = False
    if kind == "cross":
        sh = [3] * ndim
        b = np.zeros(sh, int)
        for pos in itertools.product(range(3), repeat=ndim):
            if sum(abs(p - 1) for p in pos) <= 1:
                b[pos] = 1
        regular = True
    elif kind in ("box", "box5"):
        sh = [3 if kind == "box" else 5] * ndim
        b = np.ones(sh, int)
        regular = True
    elif kind == "disk":
        r = rng.choice([1, 2, 3])
        sh = [2 * r + 1] * ndim
        idx = np.indices(sh) - r
        b = ((idx ** 2).sum(0) < r * r).astype(int)
        regular = True
    else:
        if kind == "even":
            sh = [rng.choice([2, 4]) for _ in range(ndim)]
        elif kind == "huge":
            sh = [min(7, ishape[i] + rng.choice([0, 1, 2, 3])) for i in range(ndim)]
        else:
            sh = [rng.choice([1, 2, 3, 3, 3, 4, 5]) for _ in range(ndim)]
        while gen.size(sh) > 60:
            sh[rng.randrange(ndim)] = 1
        n = gen.size(sh)
        if kind == "empty":
            b = np.zeros(sh, int)
        else:
            p = rng.choice([0.3, 0.6, 0.9])
            b = np.array([1 if rng.random() < p else 0 for _ in range(n)]).reshape(sh)
    # b marks membership; now assign heights according to dtype
    n = b.size
    bv = []
    for m in b.reshape(-1):
        if dtype == "bool":
            bv.append(int(m))
        elif lo == 0:  # unsigned: 0 = not a member, members have heights >= 1
            if not m:
                bv.append(0)
            elif kind in ("nonflat", "withmin"):
                bv.append(rng.choice([1, 2, 3, hi, hi - 1, rng.randint(1, hi)]))
            else:
                bv.append(1)
        else:  # signed: tmin = not a member; 0 is a member of height 0
            if kind in ("nonflat", "withmin"):
                bv.append(rng.choice([lo, lo, 0, 1, 2, hi, hi - 1, rng.randint(0, hi)]) if not m or kind == "nonflat"
                          else rng.choice([0, 1]))
            else:
                bv.append(int(m))  # as produced by casting a 0/1 element: heights 0 and 1, all members
    if kind in ("nonflat", "withmin", "arb", "even", "huge", "empty"):
        regular = False
    return [int(x) for x in sh], bv, regular, kind


def cases(ctx):
    rng = ctx.rng
    if ctx.tier == "thorough":
        yield from exhaustive_bool()
    # elements much wider than the image with few members: an offset longer than the image still reads the replicated edge pixel
    for i in range(60 if ctx.tier == "quick" else 600):
        shape = [rng.randint(1, 4), rng.randint(1, 4)]
        bsh = [rng.choice([1, 3, 5, 7, 9]), rng.choice([1, 3, 5, 7, 9, 11])]
        bv = [0] * gen.size(bsh)
        for _ in range(rng.choice([1, 1, 2, 3])):
            bv[rng.randrange(len(bv))] = 1
        yield {"op": rng.choice(["erode", "dilate"]), "dtype": "bool", "shape": shape, "vals": gen.rand_values(rng, "bool", gen.size(shape)),
               "bshape": bsh, "bvals": bv, "regular": False, "kind": "sparse-wide", "layout": "C", "blayout": "C"}
    # the default element (Bc=None) and the integer codes, after other public calls that use the same default element in the same
    # process (extrema, label, open ...): the element handed to erode/dilate must not depend on that history
    for i in range(60 if ctx.tier == "quick" else 600):
        dtype = rng.choice(["bool", "uint8", "uint16", "int32", "int64"])
        nd = rng.choice([1, 2, 2, 3, 3, 4])
        shape = [rng.randint(1, 5 if nd < 4 else 3) for _ in range(nd)]
        code = rng.choice([None, 1, 1, 2, nd] + ([4, 8] if nd == 2 else []) + ([6] if nd == 3 else []))
        yield {"op": rng.choice(["erode", "dilate"]), "dtype": dtype, "shape": shape, "vals": gen.rand_values(rng, dtype, gen.size(shape)),
               "kind": "default-element", "code": code, "layout": rng.choice(LAYOUTS),
               "warm": rng.choice(["regmax", "regmin", "locmax", "locmin", "label", "open", "close", "cwatershed", None])}
    # elements with an axis of length zero (an empty neighbourhood: erosion gives the largest value, dilation the smallest, on
    # every path); the element is a view into non-zero memory, so that a path which looks at "its centre" reads a foreign 1
    for i in range(40 if ctx.tier == "quick" else 400):
        dtype = rng.choice(["bool", "bool", "bool", "uint8", "int16"])
        nd = rng.choice([1, 2, 2, 2, 3])
        shape = [rng.randint(1, 6) for _ in range(nd)]
        bsh = [rng.choice([1, 2, 3]) for _ in range(nd)]
        bsh[rng.randrange(nd)] = 0
        if rng.random() < 0.3:
            bsh[rng.randrange(nd)] = 0
        yield {"op": rng.choice(["erode", "dilate"]), "dtype": dtype, "shape": shape, "vals": gen.rand_values(rng, dtype, gen.size(shape)),
               "bshape": bsh, "bvals": [], "regular": False, "kind": "zero-axis", "layout": rng.choice(["C", "C", "C", "F", "strided"]),
               "blayout": "zeroview"}
    n = 900 if ctx.tier == "quick" else 12000
    for i in range(n):
        dtype = rng.choice(gen.INT_DTYPES + ["bool", "bool", "uint8", "int8"])
        shape = gen.rand_shape(rng, big=(i % 7 == 0))
        vals = gen.rand_values(rng, dtype, gen.size(shape))
        bshape, bvals, regular, kind = se_for(rng, dtype, len(shape), shape)
        yield {"op": rng.choice(["erode", "dilate"]), "dtype": dtype, "shape": shape, "vals": vals,
               "bshape": bshape, "bvals": bvals, "regular": regular, "kind": kind,
               "layout": rng.choice(ROW_VIEWS if (dtype == "bool" and len(shape) == 2 and rng.random() < 0.5) else LAYOUTS),
               "blayout": rng.choice(["C", "C", "F", "strided"])}


def exhaustive_bool():
    for (h, w) in [(1, 1), (1, 2), (2, 1), (2, 2), (1, 3), (3, 1), (2, 3), (3, 2), (3, 3), (1, 4), (2, 4), (3, 4)]:
        for bits in range(2 ** (h * w)):
            vals = [(bits >> k) & 1 for k in range(h * w)]
            yield {"op": "both", "dtype": "bool", "shape": [h, w], "vals": vals, "exh_se": True}


ALL_SE = None


def run_exhaustive(ctx, case):
    """all 512 3x3 elements x {erode, dilate} x {C, F} for one boolean image"""
    mh = ctx.mh
    a = gen.mk("bool", case["shape"], case["vals"])
    af = np.asfortranarray(a)
    enc_a = enc_arr(a)
    nbad = None
    for sebits in range(512):
        b = np.array([(sebits >> k) & 1 for k in range(9)], bool).reshape(3, 3)
        enc_b = enc_arr(b)
        for op in ("erode", "dilate"):
            want = ctx.model.ints("%s b %s %s" % (op, enc_a, enc_b))[0]
            for arr in (a, af):
                got = getattr(mh, op)(arr, b)
                if [int(v) for v in got.reshape(-1)] != want:
                    return Result(False, True, {"op": op, "se": b.astype(int).tolist(), "want_model": want,
                                                "got": got.astype(int).tolist(), "fortran": arr is af})
            ctx.stats["exhaustive_kernel_calls"] = ctx.stats.get("exhaustive_kernel_calls", 0) + 2
    return Result(True, True, None, "exhaustive-bool")


def run_default_element(ctx, case, a0):
    """erode/dilate with Bc=None or an integer code: the element is the documented one (|offset|_1 <= k on a 3^d grid, with the
    2-D/3-D neighbour counts 4, 8, 6 translated), whatever was called before in this process"""
    mh = ctx.mh
    dtype, nd, code = case["dtype"], a0.ndim, case["code"]
    k = 1 if code is None else {(2, 4): 1, (2, 8): 2, (3, 6): 1}.get((nd, code), code)
    idx = np.indices([3] * nd) - 1
    b0 = (np.abs(idx).sum(0) <= k).astype(a0.dtype)
    warm = case.get("warm")
    if warm:
        w = gen.mk(dtype, case["shape"], case["vals"][::-1])
        try:
            if warm == "cwatershed":
                mh.cwatershed(w, (w > 0).astype(np.int64) if dtype != "bool" else w.astype(np.int64))
            elif warm == "label":
                mh.label(w)
            else:
                getattr(mh, warm)(w)
        except Exception:
            pass
    a = apply_layout(a0, case["layout"], fill=1)
    got = getattr(mh, case["op"])(a) if code is None else getattr(mh, case["op"])(a, code)
    if got.dtype != a0.dtype or got.shape != a0.shape:
        return Result(False, True, {"why": "dtype/shape", "got_dtype": str(got.dtype), "got_shape": list(got.shape)})
    gl = [int(v) for v in got.reshape(-1)]
    want = ctx.model.ints("%s %s %s %s" % (case["op"], DT_CODES[dtype], enc_arr(a0), enc_arr(b0)))[0]
    if gl != want:
        return Result(False, True, {"why": "%s with the default / integer-code element != model with the documented element" % case["op"],
                                    "code": code, "after": warm, "want_model": want, "got": gl})
    return Result(True, len(set(gl)) > 1, None, "%s/default-element/%dD/after-%s" % (case["op"], nd, warm))


def run_case(ctx, case):
    if case.get("exh_se"):
        return run_exhaustive(ctx, case)
    mh = ctx.mh
    dtype = case["dtype"]
    a0 = gen.mk(dtype, case["shape"], case["vals"])
    if case.get("kind") == "default-element":
        return run_default_element(ctx, case, a0)
    b0 = gen.mk(dtype, case["bshape"], case["bvals"])
    a = apply_layout(a0, case["layout"], fill=1)
    if case["blayout"] == "zeroview":
        big = np.ones([max(d, 2) for d in case["bshape"]], dtype=b0.dtype)
        b = big[tuple(slice(0, d) for d in case["bshape"])]
        assert b.shape == b0.shape and b.size == 0
    else:
        b = apply_layout(b0, case["blayout"], fill=1)
    op = case["op"]
    keep = a.copy()
    got = getattr(mh, op)(a, b)
    code = DT_CODES[dtype]
    detail = None
    if not np.array_equal(a, keep):
        return Result(False, True, {"why": "input modified"})
    if got.dtype != a0.dtype or got.shape != a0.shape:
        return Result(False, True, {"why": "dtype/shape", "got_dtype": str(got.dtype), "got_shape": list(got.shape)})
    gl = [int(v) for v in got.reshape(-1)]
    want = ctx.model.ints("%s %s %s %s" % (op, code, enc_arr(a0), enc_arr(b0)))[0]
    ok = gl == want
    if not ok:
        detail = {"why": "implementation != model", "want_model": want, "got": gl}
    # property oracle (extracted Coq spec)
    if op == "erode":
        spec = ctx.model.ints("erode_spec %s %s %s" % (code, enc_arr(a0), enc_arr(b0)))[0]
        if gl != spec:
            ok = False
            detail = {"why": "implementation != erode_spec (lattice definition)", "spec": spec, "got": gl}
    else:
        spec, inside = ctx.model.ints("dilate_spec %s %s %s" % (code, enc_arr(a0), enc_arr(b0)))
        for i, (g, s, ins) in enumerate(zip(gl, spec, inside)):
            if (ins or case["regular"]) and g != s:
                ok = False
                detail = {"why": "implementation != dilate_spec at pixel %d (inside=%d regular=%s)" % (i, ins, case["regular"]),
                          "spec": spec, "got": gl}
                break
    nontriv = len(set(gl)) > 1 or sum(1 for v in case["bvals"] if v) >= 2
    path = "fast" if (dtype == "bool" and len(case["shape"]) == 2 and a.flags.c_contiguous and a.flags.aligned) else "generic"
    return Result(ok, nontriv, detail, "%s/%s/%dD/%s/%s" % (op, "bool" if dtype == "bool" else ("signed" if dtype[0] == "i" else "unsigned"),
                                                             len(case["shape"]), path, case["kind"]))


def shrink(ctx, case):
    if case.get("exh_se"):
        return
    # try simpler layouts first, then zero values
    for lay in ("C", "F"):
        if case["layout"] != lay:
            c = dict(case); c["layout"] = lay; yield c
    if case["blayout"] != "C":
        c = dict(case); c["blayout"] = "C"; yield c
    for i, v in enumerate(case["vals"]):
        if v not in (0, 1):
            c = dict(case); c["vals"] = list(case["vals"]); c["vals"][i] = 0; yield c
