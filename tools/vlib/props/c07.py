"""C07: rank / median / mean filters, template_match and find = their definitions."""
import itertools
import numpy as np
from vlib.harness import Result, enc_arr, enc_list, DT_CODES, apply_layout, LAYOUTS
from vlib import gen

ID = "C07"
MODES = ["nearest", "wrap", "reflect", "mirror", "constant", "ignore"]
M2I = {m: i for i, m in enumerate(MODES)}
RULE = ("random over dtype (8 int + 2 float dtypes, float values exact quarter-integers scaled to integers for the model) x ndim "
        "1-3 x 7 layouts x neighbourhoods/templates (odd, even, larger than the image, with zeros) x every rank x 6 modes; "
        "outputs compared with the extracted Coq model AND judged by the extracted Coq specification (samples_spec + counting "
        "characterisation of the rank-th smallest, sum/count for the mean, ssd_spec, occurrence for find). thorough adds every "
        "placement of templates <=3x3 over {0,1} in images <=4x5 (including flush bottom/right and template = image). "
        "Non-trivial: image not constant and neighbourhood/template has >=2 members Added: 7x7 and 2x7x7 neighbourhoods in ignore mode with ranks that are multiples of 7; 64-bit template_match inputs offset by 2**53+1 .. 2**63+7.")
NOT_PROVED = ["std::nth_element is modelled by its specification (sorted position), not verified",
              "mean_filter's final double division sum/n is outside the model: compared against the correctly rounded quotient",
              "template_match theorems: integer dtypes in the no-overflow regime (tm_at_spec) and boolean images (tm_at_bool: 1 iff the sum of squared differences is non-zero); float by correspondence only"]
BUDGET_S = {"quick": 100, "thorough": 900}
DTYPES = ["uint8", "int8", "uint16", "int16", "uint32", "int32", "uint64", "int64", "float32", "float64"]


def rand_bc(rng, shape, allow_zero=True):
    nd = len(shape)
    sh = [rng.choice([1, 2, 3, 3, 4, shape[d] + rng.choice([0, 1])]) for d in range(nd)]
    while gen.size(sh) > 30:
        sh[rng.randrange(nd)] = rng.choice([1, 2])
    n = gen.size(sh)
    p = rng.choice([0.5, 0.8, 1.0])
    b = [1 if rng.random() < p else 0 for _ in range(n)]
    if not any(b):
        b[rng.randrange(n)] = 1
    return sh, b


def cases(ctx):
    rng = ctx.rng
    if ctx.tier == "thorough":
        for (h, w) in [(1, 1), (2, 2), (2, 3), (3, 3), (3, 4), (4, 5)]:
            for (th, tw) in [(1, 1), (1, 2), (2, 1), (2, 2), (3, 3), (1, 3), (3, 1), (h, w)]:
                if th > h or tw > w:
                    continue
                for bits in range(2 ** (th * tw)) if th * tw <= 4 else [rng.randrange(2 ** (th * tw)) for _ in range(6)]:
                    t = [(bits >> k) & 1 for k in range(th * tw)]
                    for y in range(h - th + 1):
                        for x in range(w - tw + 1):
                            f = [rng.randint(0, 1) for _ in range(h * w)]
                            for sy in range(th):
                                for sx in range(tw):
                                    f[(y + sy) * w + x + sx] = t[sy * tw + sx]
                            yield {"kind": "find", "dtype": rng.choice(["uint8", "bool", "int32", "float64"]),
                                   "shape": [h, w], "f": f, "tshape": [th, tw], "t": t, "layout": "C", "tlayout": "C"}
    # large neighbourhoods in 'ignore' mode: the rank is rescaled by (samples inside)/N2 at the border, and for N2 = 49 or 98 the
    # exact quotient n*rank/N2 is an integer for every rank that is a multiple of 7 (a rounded 1/N2 would fall one short)
    for i in range(16 if ctx.tier == "quick" else 160):
        three = i % 4 == 3
        shape = [2, rng.randint(7, 9), rng.randint(7, 9)] if three else [rng.randint(7, 10), rng.randint(7, 10)]
        bsh = [2, 7, 7] if three else [7, 7]
        N2 = gen.size(bsh)
        dtype = rng.choice(["uint8", "int32", "float64"])
        yield {"kind": "rank", "dtype": dtype, "shape": shape, "f": [rng.randint(0, 40) for _ in range(gen.size(shape))],
               "bshape": bsh, "b": [1] * N2, "mode": "ignore", "layout": "C", "blayout": "C",
               "rank": rng.choice([7 * k for k in range(1, N2 // 7)] + [rng.randrange(N2)])}
    n = 800 if ctx.tier == "quick" else 9000
    for i in range(n):
        kind = rng.choice(["rank", "rank", "median", "mean", "tm", "find", "find"])
        dtype = rng.choice(DTYPES + ["bool"])     # boolean images too: the median of a binary neighbourhood is its majority, ties by rank
        if kind == "find":
            h, w = rng.choice([1, 2, 3, 4, 5, 6]), rng.choice([1, 2, 3, 4, 5, 6])
            th, tw = rng.randint(1, h), rng.randint(1, w)
            if rng.random() < 0.15:
                th, tw = h, w
            if rng.random() < 0.1:
                th += 1
            hi = 1 if dtype == "bool" else 2
            t = [rng.randint(0, hi) for _ in range(th * tw)]
            f = [rng.randint(0, hi) for _ in range(h * w)]
            if th <= h and tw <= w and rng.random() < 0.8:   # plant an occurrence, often flush with the bottom/right edge
                y = rng.choice([0, h - th, rng.randint(0, h - th)])
                x = rng.choice([0, w - tw, rng.randint(0, w - tw)])
                for sy in range(th):
                    for sx in range(tw):
                        f[(y + sy) * w + x + sx] = t[sy * tw + sx]
            yield {"kind": "find", "dtype": dtype, "shape": [h, w], "f": f, "tshape": [th, tw], "t": t,
                   "layout": rng.choice(LAYOUTS), "tlayout": rng.choice(["C", "F", "strided"])}
            continue
        shape = gen.rand_shape(rng, big=(i % 11 == 0))
        N = gen.size(shape)
        uns = dtype.startswith("uint") or dtype == "bool"
        pal = [rng.randint(0, 9) if uns else rng.randint(-6, 9) for _ in range(rng.choice([2, 3, 10]))]
        if dtype == "bool":
            pal = [0, 1]
        f = [rng.choice(pal) for _ in range(N)]
        mode = rng.choice(MODES)
        lay = rng.choice(LAYOUTS)
        if kind in ("rank", "median", "mean"):
            bsh, b = rand_bc(rng, shape)
            c = {"kind": kind, "dtype": dtype, "shape": shape, "f": f, "bshape": bsh, "b": b, "mode": mode, "layout": lay,
                 "blayout": rng.choice(["C", "C", "F", "strided"])}
            if kind == "rank":
                c["rank"] = rng.randrange(sum(b))
            if rng.random() < 0.3:
                # members marked by other non-zero values than 1 (a weighted mask handed over as it is): which samples are
                # selected, and hence the median, does not depend on the marks
                c["bw"] = [rng.choice([1, 2, 3, 5]) for _ in b]
            yield c
        else:
            tsh = [rng.choice([1, 2, 3, shape[d]]) for d in range(len(shape))]
            while gen.size(tsh) > 27:
                tsh[rng.randrange(len(tsh))] = 1
            t = [rng.choice(pal + [0]) for _ in range(gen.size(tsh))]
            # 64-bit images far above 2**53 whose differences are small: the sum of squared differences is tiny and exact in the
            # image's own type, but not if the values pass through a double
            base = 0
            if dtype in ("int64", "uint64") and mode in ("nearest", "wrap", "reflect", "mirror") and rng.random() < 0.7:
                base = rng.choice([2 ** 53 + 1, 2 ** 62 + 3] + ([2 ** 63 + 7] if dtype == "uint64" else [-(2 ** 62) - 5]))
            yield {"kind": "tm", "dtype": dtype, "shape": shape, "f": f, "tshape": tsh, "t": t, "mode": mode, "layout": lay, "base": base}


def count_check(samples, r, v):
    lt = sum(1 for s in samples if s < v)
    le = sum(1 for s in samples if s <= v)
    return v in samples and lt <= r < le


def run_case(ctx, case):
    mh = ctx.mh
    kind = case["kind"]
    dtype = case["dtype"]
    npdt = bool if dtype == "bool" else np.dtype(dtype)
    isf = dtype.startswith("float")
    scale = 0.25 if isf else 1
    f0i = np.array(case["f"], dtype=np.int64).reshape(case["shape"])
    f0 = (f0i * scale).astype(npdt)
    f = apply_layout(f0, case["layout"], fill=1)
    keep = f.copy()
    if kind == "find":
        t0i = np.array(case["t"], dtype=np.int64).reshape(case["tshape"])
        t = apply_layout((t0i * scale).astype(npdt), case["tlayout"], fill=1)
        got = mh.find(f, t)
        if not np.array_equal(f, keep):
            return Result(False, True, {"why": "input modified"})
        want = ctx.model.ints("find2d %s %s" % (enc_arr(f0i), enc_arr(t0i)))[0]
        H, W = case["shape"]
        th, tw = case["tshape"]
        # independent definition: occurrences
        occ = [[y, x] for y in range(H - th + 1) for x in range(W - tw + 1)
               if np.array_equal(f0i[y:y + th, x:x + tw], t0i)]
        gl = np.asarray(got)
        if gl.shape != f0.shape or gl.dtype != bool:
            return Result(False, True, {"why": "find: result is not a boolean map of the image's shape"})
        gl = [[int(a), int(b)] for a, b in zip(*np.nonzero(gl))]
        wl = [[i // W, i % W] for i, v in enumerate(want) if v]
        if sorted(gl) != occ:
            return Result(False, True, {"why": "find != set of occurrences (definition)", "occurrences": occ, "got": gl})
        if sorted(gl) != wl:
            return Result(False, True, {"why": "find != model", "want_model": wl, "got": gl})
        flush = any(y + th == H or x + tw == W for y, x in occ)
        return Result(True, len(occ) > 0, None, "find/%s/%s" % ("flush" if flush else ("occurs" if occ else "none"),
                                                                "whole" if [th, tw] == [H, W] else "part"))
    mode = case["mode"]
    m = M2I[mode]
    if kind in ("rank", "median", "mean"):
        b0 = np.array(case["b"], dtype=np.int64).reshape(case["bshape"])
        if case.get("bw"):
            b0 = b0 * np.array(case["bw"], dtype=np.int64).reshape(case["bshape"])
        b = apply_layout(b0.astype(npdt), case["blayout"], fill=1)
        if kind == "mean":
            got = mh.mean_filter(f, b, mode=mode)
            if got.dtype != np.float64 or got.shape != f0.shape:
                return Result(False, True, {"why": "dtype/shape"})
            sums, ns = ctx.model.ints("mean_filter %d %s %s" % (m, enc_arr(f0i), enc_arr(b0)))
            samples = ctx.model.ints("samples_spec %d %s %s" % (m, enc_arr(f0i), enc_arr(b0)))
            gl = [float(v) for v in got.reshape(-1)]
            for i, (g, s, n) in enumerate(zip(gl, sums, ns)):
                if n == 0:
                    continue  # empty neighbourhood: outside the definition
                if samples and len(samples) == len(gl) and (sum(samples[i]) != s or len(samples[i]) != n):
                    return Result(False, True, {"why": "model != spec (sum,count) at %d" % i})
                if g != (s * scale) / n:
                    return Result(False, True, {"why": "mean at pixel %d != sum/count of the selected samples" % i,
                                                "sum": s * scale, "n": n, "got": g})
            if not np.array_equal(f, keep):
                return Result(False, True, {"why": "input modified"})
            return Result(True, len(set(case["f"])) > 1 and sum(case["b"]) >= 2, None, "mean/%s/%dD" % (mode, f0.ndim))
        if kind == "median":
            rank = int(ctx.model.ints("median_rank %s" % enc_arr(b0))[0][0])
            got = mh.median_filter(f, b, mode=mode)
        else:
            rank = case["rank"]
            got = mh.rank_filter(f, b, rank, mode=mode)
        if not np.array_equal(f, keep):
            return Result(False, True, {"why": "input modified"})
        if got.dtype != f0.dtype or got.shape != f0.shape:
            return Result(False, True, {"why": "dtype/shape"})
        gl = [int(round(float(v) / scale)) for v in got.reshape(-1)]
        N = len(gl)
        want = ctx.model.ints("rank_filter %d %s %s %d %s" % (m, enc_arr(f0i), enc_arr(b0), rank, enc_list([-77] * N)))[0]
        samples = ctx.model.ints("samples_spec %d %s %s" % (m, enc_arr(f0i), enc_arr(b0)))
        N2 = sum(case["b"])
        for i in range(N):
            s = samples[i]
            if not s:
                continue  # outside the definition (no sample at all)
            r = rank if len(s) == N2 else (len(s) * rank) // N2
            if not count_check(s, r, gl[i]):
                return Result(False, True, {"why": "pixel %d is not the rank-th smallest of the selected samples" % i,
                                            "samples": s, "rank": r, "got": gl[i]})
            if gl[i] != want[i]:
                return Result(False, True, {"why": "implementation != model at %d" % i, "want_model": want, "got": gl})
        return Result(True, len(set(case["f"])) > 1 and N2 >= 2, None, "%s/%s/%dD/%s" % (kind, mode, f0.ndim, dtype))
    if kind == "tm":
        t0i = np.array(case["t"], dtype=np.int64).reshape(case["tshape"])
        t = (t0i * scale).astype(npdt)
        if case.get("base"):
            bb = np.array(case["base"], dtype=npdt)
            f0 = f0 + bb
            f = apply_layout(f0, case["layout"], fill=1)
            keep = f.copy()
            t = t + bb
            assert f0.dtype == npdt and t.dtype == npdt
        got = mh.template_match(f, t, mode=mode)
        if not np.array_equal(f, keep):
            return Result(False, True, {"why": "input modified"})
        if got.dtype != f0.dtype or got.shape != f0.shape:
            return Result(False, True, {"why": "dtype/shape"})
        spec = ctx.model.ints("ssd_spec %d %s %s" % (m, enc_arr(f0i), enc_arr(t0i)))[0]
        if dtype == "bool":
            gl = [int(v) for v in got.reshape(-1)]
            spec = [1 if s else 0 for s in spec]
            want = ctx.model.ints("template_match b %d %s %s" % (m, enc_arr(f0i), enc_arr(t0i)))[0]
        elif isf:
            gl = [float(v) / (scale * scale) for v in got.reshape(-1)]
            want = spec
        else:
            gl = [int(v) for v in got.reshape(-1)]
            want = ctx.model.ints("template_match %s %d %s %s" % (DT_CODES[dtype], m, enc_arr(f0i), enc_arr(t0i)))[0]
            lo, hi = gen.INT_INFO[dtype]
            if dtype[0] == "i" and any(s > hi for s in spec):
                return Result(True, False, None, "tm/skipped-signed-overflow")   # signed overflow is UB: outside the property
            if any(s > hi for s in spec):
                spec = want    # unsigned wrap-around: the model's modular result is the reference
        if gl != spec:
            return Result(False, True, {"why": "template_match != sum of squared differences (ssd_spec)", "spec": spec, "got": gl})
        if gl != want:
            return Result(False, True, {"why": "template_match != model", "want_model": want, "got": gl})
        return Result(True, len(set(case["f"])) > 1 and len(case["t"]) >= 2, None, "tm/%s/%dD/%s" % (mode, f0.ndim, dtype))
    raise ValueError(kind)


def shrink(ctx, case):
    for lay in ("C",):
        if case.get("layout") != lay:
            c = dict(case); c["layout"] = lay; yield c
    for key in ("blayout", "tlayout"):
        if case.get(key, "C") != "C":
            c = dict(case); c[key] = "C"; yield c
    for i, v in enumerate(case["f"]):
        if v != 0:
            c = dict(case); c["f"] = list(case["f"]); c["f"][i] = 0; yield c
