"""C12: concurrent calls from many threads return exactly the single-threaded results (logic + runtime)."""
import json
import os
import random
import subprocess
from concurrent.futures import ThreadPoolExecutor
from vlib.harness import Result
from vlib import registry as R

ID = "C12"
RULE = ("runtime half: jobs of 2-32 simultaneous calls executed in an isolated worker process (tools/vlib/thread_worker.py): every call "
        "is first run alone (its reference outcome: canonical value or exception kind), then all calls are issued from a thread pool "
        "with a barrier-aligned start (switch interval 10 us), repeated `reps` times per thread and for several rounds, then run alone "
        "again. Jobs: (a) for every registry function (%d) 8 threads hammering the SAME read-only argument objects; (b) mixes of "
        "GIL-releasing kernels (morphology, watershed, label, filters, distance, thin, texture, SURF, interpolation, ...) on distinct "
        "and on shared arrays, of different sizes and dtypes, including calls that raise inside a kernel (rank out of range, spline "
        "order, mismatched arguments); (c) for every GIL-releasing or filter/feature function 8+ threads running the same kernel on "
        "DIFFERENT arguments (sizes up to 90x90, dtypes, orders, modes) after a raising call of the same family; (d) cold starts: 16 threads issue the "
        "first calls a fresh process ever makes (switch interval 1 us), compared with the same calls repeated afterwards - many "
        "more fresh processes for functions the source inventory lists as writers of module-level state. Violations: any concurrent outcome or any later sequential outcome that differs from the "
        "reference (bit-exact), an argument modified, a drift of the reference count of an input object (a lost update on a shared "
        "object's count), a crash or a deadlock (time limit). Non-trivial: the job contains at least one call that returns a value"
        % len(R.REG))
NOT_PROVED = ["that the compiled kernels perform only the accesses of the model and that CPython's lock hand-over behaves as "
              "documented is observed, not proved; schedules are sampled by the operating system, not enumerated",
              "the Coq theorems cover the interference logic: private-or-read-only accesses imply serial equivalence for every "
              "interleaving, and the inventory of shared mutable state re-translated from the sources contains only idempotent lazy "
              "initialisation"]
BUDGET_S = {"quick": 420, "thorough": 3000}
RAISERS = [   # calls that raise from inside native code (some after the lock was released)
    {"fn": "rank_filter", "args": [R.A("float64", [6, 7], [float(i % 5) for i in range(42)]), R.A("float64", [3, 3], [1.0] * 9), 100], "kwargs": {}},
    {"fn": "interpolate.spline_filter", "args": [R.A("float64", [6, 7], [float(i % 5) for i in range(42)])], "kwargs": {"order": 7}},
    {"fn": "features.haralick", "args": [R.A("int32", [4, 4], [-1, 2, 3, 1] * 4)], "kwargs": {}},
    {"fn": "erode", "args": [R.A("uint8", [4, 4], [1] * 16), R.A("uint8", [3], [1, 1, 1])], "kwargs": {}},
    {"fn": "features.surf.surf", "args": [R.A("float64", [30, 30], [float((i * 7) % 13) for i in range(900)])], "kwargs": {"nr_octaves": 0}},
    {"fn": "labeled.bbox", "args": [R.A("int64", [2, 3], [0, 1, -5, 2, 1, 1])], "kwargs": {}},
]


def big_rshape(rng, nd=None, lo=1, hi=7, maxsize=120):
    nd = nd or rng.choice([1, 2, 2, 2, 3])
    top = rng.choice([6, 12, 40, 90]) if nd <= 2 else rng.choice([5, 9])
    for _ in range(50):
        sh = [rng.randint(lo, top) for _ in range(nd)]
        n = 1
        for s in sh:
            n *= s
        if n <= 8100:
            return sh
    return [rng.randint(lo, hi) for _ in range(nd)]


def huge_rshape(rng, nd=None, lo=1, hi=7, maxsize=120):
    """kernels must run long enough (milliseconds) to overlap once the lock is released"""
    nd = nd or rng.choice([1, 2, 2, 2, 3])
    if nd == 1:
        return [rng.randint(200, 4000)]
    if nd == 2:
        return [rng.randint(60, 320), rng.randint(60, 320)]
    return [rng.randint(4, 24) for _ in range(nd)]


def gen_jobs(ctx):
    rng = random.Random(ctx.seed + 12)
    quick = ctx.tier == "quick"
    jobs = []
    gil = [e for e in R.REG if e.gil]
    for e in R.REG:                       # (a) same arguments, many threads
        for k in range(1 if quick else 4):
            try:
                args, kw = e.gen(rng)
            except Exception:
                continue
            jobs.append({"kind": "same/" + e.name,
                         "calls": [{"fn": e.name, "args": args, "kwargs": kw, "share": None if e.inplace_args else 0,
                                    "inplace": list(e.inplace_args)} for _ in range(8)],
                         "threads": 8, "rounds": 2, "reps": 25 if quick else 120})
    # (d) cold start: the first calls a fresh process ever makes are the concurrent ones (lazy initialisation of module state);
    #     functions that the source inventory lists as writers of module-level state get many more fresh processes
    lazy = set()
    try:
        import re
        txt = open(os.path.join(os.path.dirname(os.path.abspath(__file__)), "..", "..", "..", "coq", "Gen", "Threads_gen.v")).read()
        m = re.search(r"py_global_writes[^\[]*\[(.*?)\]\.", txt, re.S)
        lazy = set(re.findall(r'\("[^"]*", "([^"]*)", "[^"]*"\)', m.group(1))) if m else set()
        m = re.search(r"py_mutated_containers[^\[]*\[(.*?)\]\.", txt, re.S)
        lazy |= set(re.findall(r'\("[^"]*", "([^"]*)", "[^"]*"\)', m.group(1))) if m else set()
    except OSError:
        pass
    ctx.stats["lazy_state_writers"] = sorted(lazy)
    small_rshape = R.rshape
    for e in R.REG:
        hot = e.name.split(".")[-1] in lazy
        R.rshape = big_rshape if hot else small_rshape       # larger inputs exercise every entry of a lazily built table
        for k in range((16 if hot else 1) if quick else (60 if hot else 3)):
            try:
                args, kw = e.gen(rng)
            except Exception:
                continue
            calls = []
            for i in range(16):
                try:
                    a2, k2 = e.gen(rng) if i % 2 else (args, kw)
                except Exception:
                    a2, k2 = args, kw
                calls.append({"fn": e.name, "args": a2, "kwargs": k2, "share": None, "inplace": list(e.inplace_args)})
            jobs.append({"kind": "cold/" + e.name, "calls": calls, "threads": 16, "rounds": 1, "reps": 1, "cold": True, "switch": 1e-6})
    R.rshape = small_rshape
    old = R.rshape
    R.rshape = big_rshape
    try:
        # (c) one kernel, many threads, DIFFERENT arguments (sizes, dtypes, orders, sigmas, modes): per-call temporaries kept in
        #     static or module-level storage are overwritten by the neighbour; a raising call of the same family goes first
        for e in R.REG:
            if not (e.gil or e.name.startswith(("interpolate.", "gaussian", "features.", "convolve", "wavelet", "daubechies", "haar"))):
                continue
            R.rshape = huge_rshape if rng.random() < 0.7 else big_rshape
            for k in range(1 if quick else 6):
                calls = [dict(c, share=None) for c in RAISERS if c["fn"] == e.name]
                for i in range(8):
                    try:
                        args, kw = e.gen(rng)
                    except Exception:
                        continue
                    calls.append({"fn": e.name, "args": args, "kwargs": kw, "share": None, "inplace": list(e.inplace_args)})
                if len(calls) >= 2:
                    jobs.append({"kind": "vary/" + e.name, "calls": calls, "threads": len(calls), "rounds": 3, "reps": 4 if quick else 12})
        R.rshape = big_rshape
        for k in range(24 if quick else 200):     # (b) mixes
            n = rng.choice([2, 4, 8, 16, 32])
            calls = []
            pool = gil if rng.random() < 0.7 else R.REG
            shared_specs = {}
            for i in range(n):
                if rng.random() < 0.12:
                    c = dict(rng.choice(RAISERS))
                    c["share"] = None
                    calls.append(c)
                    continue
                e = rng.choice(pool)
                try:
                    args, kw = e.gen(rng)
                except Exception:
                    continue
                share = None
                if rng.random() < 0.35 and not e.inplace_args:           # several threads on one set of argument objects
                    share = "s%d" % rng.randrange(3)
                    if share in shared_specs:
                        calls.append(dict(shared_specs[share]))
                        continue
                c = {"fn": e.name, "args": args, "kwargs": kw, "share": share, "inplace": list(e.inplace_args)}
                if share is not None:
                    shared_specs[share] = c
                calls.append(c)
            if len(calls) >= 2:
                jobs.append({"kind": "mix/%d" % n, "calls": calls, "threads": rng.choice([2, 4, 8, 16, 32]), "rounds": rng.choice([1, 2, 3]),
                             "reps": rng.choice([1, 3, 10]) if quick else rng.choice([3, 10, 30])})
    finally:
        R.rshape = old
    return jobs


def run_job(lib, job, timeout=420):
    env = dict(os.environ)
    env["VERIF_LIB"] = lib
    env["PYTHONHASHSEED"] = "0"
    env["PYTHONPATH"] = ""
    try:
        p = subprocess.run(["/venv/bin/python", os.path.join(os.path.dirname(os.path.abspath(__file__)), "..", "thread_worker.py")],
                           input=json.dumps(job), capture_output=True, text=True, env=env, timeout=timeout)
    except subprocess.TimeoutExpired:
        return {"hang": True}
    for line in p.stdout.splitlines():
        if line.startswith("RES "):
            return json.loads(line[4:])
    return {"crash": {"returncode": p.returncode, "stderr": p.stderr[-1500:]}}


def setup(ctx):
    jobs = gen_jobs(ctx)
    with ThreadPoolExecutor(max_workers=3) as ex:
        outs = list(ex.map(lambda j: run_job(ctx.lib, j), jobs))
    ctx.c12 = list(zip(jobs, outs))
    ctx.stats["jobs"] = len(jobs)
    ctx.stats["calls_in_jobs"] = sum(len(j["calls"]) for j in jobs)
    ctx.stats["concurrent_executions"] = sum(len(j["calls"]) * j["rounds"] * j["reps"] for j in jobs)


def cases(ctx):
    for i, (job, out) in enumerate(ctx.c12):
        yield {"job": job, "idx": i}


def judge(job, o):
    if o is None or "crash" in o:
        return Result(False, True, {"why": "the worker process died while running %d simultaneous calls" % len(job["calls"]),
                                    "crash": (o or {}).get("crash")})
    if "hang" in o:
        return Result(False, True, {"why": "simultaneous calls did not finish within the time limit (deadlock or livelock)"})
    seq = o["seq"]
    for rnd, res in enumerate(o["conc"]):
        for i, r in enumerate(res):
            if r != seq[i]:
                return Result(False, True, {"why": "%s returned a different outcome when run concurrently (round %d, call %d of %d)"
                                            % (job["calls"][i]["fn"], rnd, i, len(seq)),
                                            "alone": json.dumps(seq[i])[:300], "concurrent": json.dumps(r)[:300]})
    for i, r in enumerate(o["after"]):
        if r != seq[i]:
            return Result(False, True, {"why": "%s returns a different outcome after the concurrent phase (state was corrupted)"
                                        % job["calls"][i]["fn"], "before": json.dumps(seq[i])[:300], "after": json.dumps(r)[:300]})
    if not o.get("args_unchanged", True):
        return Result(False, True, {"why": "an argument array was modified during the concurrent phase"})
    if o["refdrift"]:
        return Result(False, True, {"why": "the reference count of an input array changed across the concurrent phase: its count is "
                                           "updated without the lock (lost updates; the object can be freed while in use)",
                                    "drift": o["refdrift"][:4], "functions": sorted({c["fn"] for c in job["calls"]})[:6]})
    nontrivial = any("res" in s for s in seq)
    return Result(True, nontrivial, None, job["kind"].split("/")[0] + ("/raises" if any("exc" in s for s in seq) else ""))


def run_case(ctx, case):
    job = case["job"]
    c12 = getattr(ctx, "c12", None)
    idx = case.get("idx")
    if c12 is not None and idx is not None and idx < len(c12) and c12[idx][0] == job:
        o = c12[idx][1]
    else:
        o = run_job(ctx.lib, job)
    return judge(job, o)
