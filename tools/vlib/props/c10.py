"""C10: native kernels are memory-safe on every input in the documented domain (logic proved; runtime observed under ASan)."""
import random
import numpy as np
from vlib.harness import Result, LAYOUTS
from vlib import registry as R
from vlib import isolate, build as vbuild

ID = "C10"
RULE = ("runtime half: every registry function (tools/vlib/registry.py, %d public entry points reaching every native module) x "
        "generated valid inputs (1-4 D, all dtypes of the generator, sizes 1..40 per axis, neighbourhoods/templates smaller than, "
        "equal to and larger than the image) x random memory layout per array argument, executed in isolated worker processes on an "
        "AddressSanitizer build (-O1 -g -fsanitize=address) of the current tree; any ASan report, signal or abort is a violation "
        "with the call as replay. Views are carved out of larger buffers filled with a sentinel so that out-of-view reads also show "
        "as wrong values in the C08 sweep. Non-trivial: the call returned a value Every call is also run twice on the ordinary build in fresh workers whose heaps are pre-dirtied and perturbed with different bytes; a result that differs was formed from uninitialised memory." % len(R.REG))
NOT_PROVED = ["that the compiled code performs only the modelled accesses, allocator behaviour and uninitialised padding are outside "
              "the Coq model: observed with AddressSanitizer on the same generated inputs (support, not proof)",
              "uninitialised reads are not detected by ASan; they are exposed by running every call twice on the ordinary build "
              "with differently perturbed and pre-dirtied heaps (MALLOC_PERTURB_) and comparing the results exactly"]
BUDGET_S = {"quick": 400, "thorough": 2400}
PERTURBS = [0x5A, 0xA5]


def big_rshape(rng, nd=None, lo=1, hi=7, maxsize=120):
    nd = nd or rng.choice([1, 2, 2, 2, 3, 4])
    if nd == 4:
        return [rng.randint(1, 4) for _ in range(4)]
    r = rng.random()
    top = 40 if r < 0.3 else hi
    for _ in range(100):
        sh = [rng.randint(lo, top) for _ in range(nd)]
        if int(np.prod(sh)) <= (2500 if top == 40 else maxsize):
            return sh
    return [rng.randint(lo, hi) for _ in range(nd)]


def gen_requests(ctx):
    rng = random.Random(ctx.seed + 10)
    per = 10 if ctx.tier == "quick" else 60
    reqs = []
    old = R.rshape
    R.rshape = big_rshape
    try:
        for e in R.REG:
            for k in range(per):
                try:
                    args, kwargs = e.gen(rng)
                except Exception:
                    continue
                allc = rng.random() < 0.4       # contiguity-gated fast paths need plain C arrays
                lays = [("C" if allc else rng.choice(LAYOUTS)) if isinstance(a, dict) and "arr" in a else "C" for a in args]
                kl = {k2: ("C" if allc else rng.choice(LAYOUTS)) for k2, v in kwargs.items() if isinstance(v, dict) and "arr" in v}
                reqs.append({"id": "%s#%d" % (e.name, k), "fn": e.name, "args": args, "kwargs": kwargs, "layouts": lays, "klayouts": kl})
        # every layout of the first array argument of every function, once (the random choice above leaves gaps: a kernel that
        # computes addresses from strides must be seen with negative, padded and Fortran strides)
        for e in R.REG:
            try:
                args, kwargs = e.gen(rng)
            except Exception:
                continue
            first = next((i for i, a in enumerate(args) if isinstance(a, dict) and "arr" in a), None)
            if first is None or first in getattr(e, "nolayout", ()):
                continue
            for lay in LAYOUTS[1:]:
                if lay == "readonly" and first in getattr(e, "inplace_args", ()):
                    continue
                lays = ["C"] * len(args)
                lays[first] = lay
                reqs.append({"id": "%s@%s" % (e.name, lay), "fn": e.name, "args": args, "kwargs": kwargs, "layouts": lays, "klayouts": {}})
    finally:
        R.rshape = old
    # neighbourhoods much larger than the image, on the contiguity-gated 2-D boolean fast path and on the generic path
    nfocus = 40 if ctx.tier == "quick" else 300
    for k in range(nfocus):
        h, w = rng.randint(1, 5), rng.randint(1, 4)
        img = R.A("bool", [h, w], [rng.randint(0, 1) for _ in range(h * w)])
        sh = [rng.choice([1, 3, 9]), rng.choice([7, 9, 13, 21])]
        if rng.random() < 0.3:
            sh = sh[::-1]
        se = np.zeros(sh, int)
        se[rng.randrange(sh[0]), 0] = 1
        se[rng.randrange(sh[0]), -1] = rng.randint(0, 1)
        se[0, rng.randrange(sh[1])] = 1
        fn = rng.choice(["erode", "dilate", "open", "close"])
        reqs.append({"id": "focus-%s#%d" % (fn, k), "fn": fn, "args": [img, R.A("bool", sh, [int(v) for v in se.reshape(-1)])],
                     "kwargs": {}, "layouts": ["C" if rng.random() < 0.7 else rng.choice(LAYOUTS), "C"], "klayouts": {}})
    # filters with weights much longer than the image, every border mode (the border function is evaluated far outside)
    for k in range(nfocus):
        nd = rng.choice([1, 2])
        sh = [rng.randint(1, 4) for _ in range(nd)]
        n = int(np.prod(sh))
        dt = rng.choice(["float64", "float32", "int32", "uint8"])
        img = R.A(dt, sh, [float(rng.randint(0, 9)) if dt.startswith("float") else rng.randint(0, 9) for _ in range(n)])
        wsh = [rng.choice([1, 9, 13, 17, 21]) for _ in range(nd)]
        wn = int(np.prod(wsh))
        w = R.A(dt, wsh, [float(rng.randint(0, 2)) if dt.startswith("float") else rng.randint(0, 2) for _ in range(wn)])
        w["vals"][0] = 1
        w["vals"][-1] = 1
        fn = rng.choice(["convolve", "convolve", "median_filter", "mean_filter", "rank_filter"])
        args = [img, w] + ([rng.randrange(max(1, sum(1 for v in w["vals"] if v)))] if fn == "rank_filter" else [])
        reqs.append({"id": "focus-%s#%d" % (fn, k), "fn": fn, "args": args, "kwargs": {"mode": rng.choice(R.MODES[:5])},
                     "layouts": [rng.choice(LAYOUTS), "C"] + (["C"] if fn == "rank_filter" else []), "klayouts": {}})
    return reqs


def setup(ctx):
    lib, info = vbuild.build(asan=True)
    ctx.asan_lib = lib
    ctx.stats["asan_build"] = info
    reqs = gen_requests(ctx)
    out = {}
    chunk = 150
    for s in range(0, len(reqs), chunk):
        res = isolate.run_batch(lib, reqs[s:s + chunk], asan=True, timeout_per_call=60)
        for r, o in zip(reqs[s:s + chunk], res):
            out[r["id"]] = (r, o)
    ctx.c10_out = out
    ctx.stats["asan_calls"] = len(out)
    # "never forms its result from memory it did not initialise": ASan does not see uninitialised reads, so the same calls run
    # twice on the ordinary build in fresh workers whose heaps are pre-dirtied and perturbed with different bytes
    un = {}
    for k, pb in enumerate(PERTURBS):
        # the second run also visits the calls in the opposite order: whatever a kernel keeps from one call to the next (a
        # static scratch buffer, a cache) then differs as well
        order = list(reqs) if k == 0 else list(reversed(reqs))
        rr = [dict(r, predirty=pb) for r in order]
        for s in range(0, len(rr), 400):
            res = isolate.run_batch(ctx.lib, rr[s:s + 400], perturb=pb, timeout_per_call=60)
            for r, o in zip(order[s:s + 400], res):
                un.setdefault(r["id"], {})[pb] = o
    ctx.c10_uninit = un
    ctx.stats["heap_perturbation_calls"] = len(PERTURBS) * len(reqs)


def cases(ctx):
    for rid, (r, o) in ctx.c10_out.items():
        yield {"req": r}


def run_case(ctx, case):
    r = case["req"]
    out = getattr(ctx, "c10_out", {})
    if r["id"] in out and out[r["id"]][0] == r:
        o = out[r["id"]][1]
    else:
        lib = getattr(ctx, "asan_lib", None) or vbuild.build(asan=True)[0]
        o = isolate.run_batch(lib, [r], asan=True, timeout_per_call=60)[0]
    if o is None:
        return Result(False, True, {"why": "no outcome", "fn": r["fn"]})
    if "crash" in o:
        err = o["crash"].get("stderr", "")
        kind = "AddressSanitizer report" if "AddressSanitizer" in err else "crash (signal/abort)"
        lines = [l for l in err.splitlines() if "ERROR: AddressSanitizer" in l or l.strip().startswith("#0") or l.strip().startswith("#1")
                 or l.strip().startswith("#2") or "is located" in l]
        return Result(False, True, {"why": "%s in %s" % (kind, r["fn"]), "returncode": o["crash"].get("returncode"), "asan": lines[:8]})
    if "hang" in o:
        return Result(False, True, {"why": "call did not finish under ASan within the time limit", "fn": r["fn"]})
    un = getattr(ctx, "c10_uninit", {}).get(r["id"]) if r["id"] in out and out[r["id"]][0] == r else None
    if un is None:
        un = {pb: isolate.run_batch(ctx.lib, [dict(r, predirty=pb)], perturb=pb, timeout_per_call=60)[0] for pb in PERTURBS}
    o1, o2 = un[PERTURBS[0]], un[PERTURBS[1]]
    if o1 and o2 and o1.get("exc") is None and o2.get("exc") is None and "res" in o1 and "res" in o2:
        if not R.canon_equal(o1["res"], o2["res"], float_tol=False):
            return Result(False, True, {"why": "%s: result depends on what the heap held before the call (formed from memory it did "
                                               "not initialise)" % r["fn"], "first": str(o1["res"])[:300], "again": str(o2["res"])[:300]})
    return Result(True, o.get("exc") is None, None, r["fn"] + ("" if o.get("exc") is None else "/exception"))
