"""C03: label() = connected components numbered 1..n in scan order."""
import itertools
import numpy as np
from vlib.harness import Result, enc_arr, apply_layout, LAYOUTS
from vlib import gen

ID = "C03"
RULE = ("random arrays of 1-3 D x 12 dtypes (bool, 8 ints, 2 floats, values incl. negative / huge / fractional non-zeros) x 7 "
        "layouts x connectivity elements (cross, box, arbitrary 3^d, even-sized, one-sided, None/int shorthands) x optional "
        "out= buffer; the result is compared with the extracted Coq model and with an independent evaluation of the "
        "definition (equivalence closure of in-image adjacencies + first-appearance numbering). thorough: all boolean images "
        "<=4x4 with 4-/8-neighbourhoods and all 512 3x3 elements on all images <=3x3. Non-trivial: >=2 non-zero pixels Added: float16 images with fractional values; the default element after the arrays returned by morph.get_structuring_elem were overwritten by their caller; rows, columns, lines (1.2-5 million pixels), a serpentine and stripes labelled in a process of their own.")
NOT_PROVED = ["both Coq models (class merging, and the parent-array union-find with path compression proved equal to it) are "
              "hand-written models of _labeled.cpp: their tie to the compiled code is the correspondence check",
              "std::map is modelled as an association list"]
BUDGET_S = {"quick": 100, "thorough": 1200}
DTYPES = ["bool", "uint8", "int8", "uint16", "int16", "uint32", "int32", "uint64", "int64", "float32", "float64", "float16"]


def components(fg, shape, offs):
    """Definition: equivalence closure of 'both non-zero, both inside, differ by an offset'; first-appearance numbering."""
    N = len(fg)
    strides = [int(np.prod(shape[d + 1:])) for d in range(len(shape))]
    parent = list(range(N))

    def find(i):
        while parent[i] != i:
            i = parent[i]
        return i
    for i in range(N):
        if not fg[i]:
            continue
        pos = [(i // strides[d]) % shape[d] for d in range(len(shape))]
        for off in offs:
            q = [p + o for p, o in zip(pos, off)]
            if all(0 <= c < s for c, s in zip(q, shape)):
                j = sum(c * st for c, st in zip(q, strides))
                if fg[j]:
                    a, b = find(i), find(j)
                    if a != b:
                        parent[a] = b
    lab = {}
    out = []
    for i in range(N):
        if not fg[i]:
            out.append(0)
        else:
            r = find(i)
            if r not in lab:
                lab[r] = len(lab) + 1
            out.append(lab[r])
    return out, len(lab)


def offsets_of(bc):
    c = [s // 2 for s in bc.shape]
    return [tuple(int(k) - cc for k, cc in zip(idx, c)) for idx in zip(*np.nonzero(bc))]


def cross(nd):
    b = np.zeros([3] * nd, int)
    c = tuple([1] * nd)
    b[c] = 1
    for d in range(nd):
        for s in (0, 2):
            idx = list(c)
            idx[d] = s
            b[tuple(idx)] = 1
    return b


BIG_SRC = r"""
import sys, json
import numpy as np
import mahotas as mh
kind, n = sys.argv[1], int(sys.argv[2])
if kind == "row":
    a = np.ones((1, n), bool); want = 1
elif kind == "col":
    a = np.ones((n, 1), bool); want = 1
elif kind == "line":
    a = np.ones(n, bool); want = 1
elif kind == "serpentine":            # one path winding through the whole image: a single component with a very long chain
    h = w = int(n ** 0.5) | 1
    a = np.zeros((h, w), bool); a[::2] = True
    for r in range(1, h, 2):
        a[r, (w - 1) if (r // 2) % 2 == 0 else 0] = True
    want = 1
else:                                  # stripes: one component per second row, numbered top to bottom
    h = w = int(n ** 0.5) | 1
    a = np.zeros((h, w), bool); a[::2] = True; want = (h + 1) // 2
lab, cnt = mh.label(a)
ok = cnt == want and lab.shape == a.shape and bool(((lab != 0) == a).all())
if kind == "stripes":
    ok = ok and bool((lab[::2, 0] == np.arange(1, want + 1)).all()) and bool((lab[::2] == lab[::2, :1]).all())
else:
    ok = ok and int(lab.max()) == 1
print(json.dumps({"ok": bool(ok), "count": int(cnt), "want": int(want), "shape": list(a.shape)}))
"""


def cases(ctx):
    rng = ctx.rng
    # long chains: rows / columns / lines of up to two million pixels and a serpentine through a 1000 x 1000 image (one component
    # each), stripes (many components).  They run in a process of their own: a crash is an observation, not the end of the check
    for kind, n in ([("row", 1200000), ("col", 1200000), ("line", 2000000), ("serpentine", 1000000), ("stripes", 250000)]
                    if ctx.tier == "quick" else
                    [("row", 400000), ("row", 1200000), ("row", 3000000), ("col", 1200000), ("col", 3000000), ("line", 2000000),
                     ("line", 5000000), ("serpentine", 1000000), ("serpentine", 4000000), ("stripes", 250000), ("stripes", 4000000)]):
        yield {"kind": "big", "pattern": kind, "n": n}
    if ctx.tier == "thorough":
        for h in range(1, 5):
            for w in range(1, 5):
                for bits in range(2 ** (h * w)):
                    v = [(bits >> k) & 1 for k in range(h * w)]
                    for n in (4, 8):
                        yield {"dtype": "bool", "shape": [h, w], "vals": v, "bc": "cross" if n == 4 else "box", "layout": "C"}
        for h in range(1, 4):
            for w in range(1, 4):
                for bits in range(2 ** (h * w)):
                    v = [(bits >> k) & 1 for k in range(h * w)]
                    if sum(v) < 2:
                        continue
                    yield {"dtype": "bool", "shape": [h, w], "vals": v, "bc": "all512", "layout": "C"}
    n = 900 if ctx.tier == "quick" else 15000
    for i in range(n):
        dtype = rng.choice(DTYPES)
        shape = gen.rand_shape(rng, big=(i % 9 == 0))
        N = gen.size(shape)
        p = rng.choice([0.3, 0.5, 0.7, 0.9])
        if dtype == "bool":
            nzv = [1]
        elif dtype == "float16":
            nzv = [1, 0.25, -0.5, 6e-5, 2, -7.5, 0.999]            # |v| < 1 must still count as foreground
        elif dtype.startswith("float"):
            nzv = [1, 2, -4, 1e-3, -7.5, 3e9, 0.25, -0.5]
        elif dtype.startswith("uint"):
            nzv = [1, 2, 200, gen.INT_INFO[dtype][1]]
        else:
            nzv = [1, -1, gen.INT_INFO[dtype][0], gen.INT_INFO[dtype][1], 5]
        if dtype in ("int64", "uint64"):
            nzv += [2 ** 32, 2 ** 40]
        vals = [rng.choice(nzv) if rng.random() < p else 0 for _ in range(N)]
        nd = len(shape)
        k = rng.choice(["cross", "box", "none", "int", "arb", "arb", "arb", "onesided", "even", "arb5"])
        if k in ("cross", "box", "none", "int"):
            bc = k
        else:
            if k == "arb":
                sh = [3] * nd
            elif k == "arb5":
                sh = [rng.choice([1, 3, 5]) for _ in range(nd)]
            elif k == "even":
                sh = [rng.choice([2, 4]) for _ in range(nd)]
            else:
                sh = [3] * nd
            b = [1 if rng.random() < 0.4 else 0 for _ in range(gen.size(sh))]
            if k == "onesided":
                b = [0] * len(b)
                b[len(b) // 2] = rng.randint(0, 1)
                b[rng.randrange(len(b))] = 1
            bc = {"shape": sh, "vals": b}
        yield {"dtype": dtype, "shape": shape, "vals": vals, "bc": bc, "layout": rng.choice(LAYOUTS),
               "out": rng.random() < 0.2, "scribble": bc == "none" and rng.random() < 0.5}


def run_one(ctx, a0, a, bc_arg, bc_arr, use_out=False):
    mh = ctx.mh
    keep = a.copy()
    if use_out:
        buf = np.full(a0.shape, -5, np.int32)
        got, n = mh.label(a, bc_arg, out=buf)
        if got is not buf:
            return Result(False, True, {"why": "out= buffer not returned"})
    else:
        got, n = mh.label(a, bc_arg) if bc_arg is not None else mh.label(a)
    if not np.array_equal(a, keep, equal_nan=False):
        return Result(False, True, {"why": "input modified"})
    if got.dtype != np.int32 or got.shape != a0.shape:
        return Result(False, True, {"why": "dtype/shape", "got": [str(got.dtype), list(got.shape)]})
    fg = [1 if v else 0 for v in (a0 != 0).reshape(-1)]
    want, wn = components(fg, list(a0.shape), offsets_of(bc_arr))
    gl = [int(v) for v in got.reshape(-1)]
    if gl != want or int(n) != wn:
        return Result(False, True, {"why": "label != connected components of the definition (in-image adjacency closure, scan-order numbering)",
                                    "want": want, "got": gl, "n": int(n), "want_n": wn, "bc": bc_arr.astype(int).tolist()})
    mo, mn = ctx.model.ints("label %s %s" % (enc_arr(np.array(fg).reshape(a0.shape)), enc_arr(bc_arr.astype(np.int64))))
    if gl != mo or int(n) != mn[0]:
        return Result(False, True, {"why": "label != model", "want": mo, "got": gl})
    # the union-find model (parent array, path compression, as in _labeled.cpp; proved equal to the class-merging model)
    uo, un = ctx.model.ints("uf_label %s %s" % (enc_arr(np.array(fg).reshape(a0.shape)), enc_arr(bc_arr.astype(np.int64))))
    if gl != uo or int(n) != un[0]:
        return Result(False, True, {"why": "label != union-find model", "want": uo, "got": gl})
    return None


def run_case(ctx, case):
    if case.get("kind") == "big":
        import subprocess, sys, os, json
        env = dict(os.environ, PYTHONPATH=ctx.lib)
        try:
            p = subprocess.run([sys.executable, "-c", BIG_SRC, case["pattern"], str(case["n"])], env=env, capture_output=True,
                               text=True, timeout=300)
        except subprocess.TimeoutExpired:
            return Result(False, True, {"why": "label did not return within 300 s on a long chain", "pattern": case["pattern"], "n": case["n"]})
        if p.returncode != 0:
            return Result(False, True, {"why": "label crashed the interpreter on a long chain of foreground pixels",
                                        "pattern": case["pattern"], "n": case["n"], "returncode": p.returncode, "stderr": p.stderr[-300:]})
        r = json.loads(p.stdout.strip().splitlines()[-1])
        if not r["ok"]:
            return Result(False, True, {"why": "label != connected components on a large image", "pattern": case["pattern"], "detail": r})
        return Result(True, True, None, "big/" + case["pattern"])
    dtype = case["dtype"]
    npdt = bool if dtype == "bool" else np.dtype(dtype)
    a0 = np.array(case["vals"], dtype=npdt).reshape(case["shape"])
    a = apply_layout(a0, case["layout"], fill=1)
    nd = a0.ndim
    bc = case["bc"]
    if bc == "all512":
        for bits in range(512):
            b = np.array([(bits >> k) & 1 for k in range(9)], bool).reshape(3, 3)
            r = run_one(ctx, a0, a, b, b)
            if r is not None:
                return r
            ctx.stats["exhaustive_calls"] = ctx.stats.get("exhaustive_calls", 0) + 1
        return Result(True, True, None, "exhaustive-512")
    if bc == "cross":
        arr, arg = cross(nd), cross(nd).astype(bool)
    elif bc == "box":
        arr, arg = np.ones([3] * nd, int), np.ones([3] * nd, bool)
    elif bc == "none":
        arr, arg = cross(nd), None
    elif bc == "int":
        arr, arg = np.ones([3] * nd, int), 8 if nd == 2 else None
        if arg is None:
            arr = cross(nd)
    else:
        arr = np.array(bc["vals"]).reshape(bc["shape"])
        arg = arr.astype(bool)
    if bc == "none" and case.get("scribble"):
        from mahotas import morph
        for probe in (np.zeros([2] * nd, np.int32), a0):
            for code in (1, None):
                try:
                    e = morph.get_structuring_elem(probe, code)
                    if isinstance(e, np.ndarray) and e.flags.writeable:
                        e[...] = 1          # the caller owns the array it was handed
                except Exception:
                    pass
    r = run_one(ctx, a0, a, arg, arr, case.get("out", False))
    if r is not None:
        if case.get("scribble") and r.detail is not None:
            r.detail["after"] = "overwriting the arrays returned by morph.get_structuring_elem"
        return r
    kind = bc if isinstance(bc, str) else "arbitrary"
    return Result(True, sum(1 for v in case["vals"] if v) >= 2, None, "%s/%dD/%s" % (kind, nd, "float" if dtype.startswith("f") else "int"))


def shrink(ctx, case):
    if case.get("kind") == "big":
        for n in (case["n"] // 2, case["n"] * 3 // 4):
            if n >= 1000:
                c = dict(case); c["n"] = n; yield c
        return
    if case.get("layout", "C") != "C":
        c = dict(case); c["layout"] = "C"; yield c
    for i, v in enumerate(case["vals"]):
        if v != 0:
            c = dict(case); c["vals"] = list(case["vals"]); c["vals"][i] = 0; yield c
