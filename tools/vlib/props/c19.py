"""C19: texture/shape descriptors equal their definitions and have the stated invariances."""
import itertools
import numpy as np
from vlib.harness import Result, enc_arr, enc_list, apply_layout, LAYOUTS
from vlib import gen

ID = "C19"
D2 = [(0, 1), (1, 1), (1, 0), (1, -1)]
D3 = [(1, 0, 0), (1, 1, 0), (0, 1, 0), (1, -1, 0), (0, 0, 1), (1, 0, 1), (0, 1, 1), (1, 1, 1), (1, -1, 1), (1, 0, -1), (0, 1, -1),
      (1, 1, -1), (1, -1, -1)]
RULE = ("integer images of 2-3 D with 1..64 grey levels x 4/13 directions x distances 1-3 x symmetric on/off x dtypes x layouts: "
        "cooccurence == extracted Coq model == direct pair count; haralick == textbook formulas evaluated independently on the "
        "normalised matrices (1e-9), invariant under 180-degree rotation, directions permuted by transposition, ignore_zeros; LBP: "
        "histogram sums to the number of pixels considered, has one bin per rotation class, _lbp.map == extracted model for every "
        "code (P<=12 quick, <=16 thorough); Zernike magnitudes invariant under 90-degree rotation about the centre and intensity "
        "scaling (1e-9); moments == defining sum (exact, integers); surf.integral == extracted model == cumulative sums, all "
        "layouts and dtypes. Non-trivial: image not constant Added: haralick with preserve_haralick_bug, use_x_minus_y_variance, return_mean, return_mean_ptp; surf.integral with int64/uint64 accumulators and prefix sums beyond 2**53.")
NOT_PROVED = ["Haralick formulas and Zernike moments are floating-point pipelines: compared with independent evaluations of the "
              "textbook definitions / checked as invariances on the implementation, not proved",
              "co-occurrence: counting, 180-degree and transposition symmetries are theorems about the counts (cooc_spec_rot180, "
              "cooc_spec_transpose); that haralick is a function of the normalised symmetric matrix only is checked per case",
              "LBP mapping: period, rotation invariance and canonical bin are theorems for every P (LbpProof.v); the histogram sum is "
              "checked on the implementation"]
BUDGET_S = {"quick": 100, "thorough": 900}


def cases(ctx):
    rng = ctx.rng
    yield {"kind": "lbpmap", "P": 8}
    for P in ([4, 6, 10, 12] if ctx.tier == "quick" else list(range(1, 17))):
        yield {"kind": "lbpmap", "P": P}
    # more than 16 points (LBP(24,3) is a standard operator): the 2**P codes are sampled -- bit runs, single bits, alternating
    # patterns, their rotations, and random words
    for P in ([17, 24, 31] if ctx.tier == "quick" else [17, 18, 20, 23, 24, 28, 31, 32]):
        yield {"kind": "lbpmap_sampled", "P": P, "seed": rng.randrange(1 << 30)}
    n = 350 if ctx.tier == "quick" else 4000
    for i in range(n):
        kind = rng.choice(["cooc", "cooc", "haralick", "lbp", "zernike", "moments", "integral", "integral"])
        lay = rng.choice(LAYOUTS)
        if kind in ("cooc", "haralick"):
            nd = rng.choice([2, 2, 3])
            shape = [rng.randint(1 if kind == "cooc" else 2, 6) for _ in range(nd)]
            top = rng.choice([1, 2, 3, 7, 63, 255] if kind == "cooc" else [1, 2, 3, 7, 63])
            vals = [rng.randint(0, top) for _ in range(gen.size(shape))]
            dt = rng.choice(["uint8", "int32", "uint16", "int64", "intc"])
            if top == 255:          # the largest value of the dtype: sizes derived from f.max()+1 must not wrap
                dt = "uint8"
                vals = [rng.choice([0, 1, 2, 255]) for _ in vals]
                vals[rng.randrange(len(vals))] = 255
            yield {"kind": kind, "shape": shape, "vals": vals, "dir": rng.randrange(4 if nd == 2 else 13), "dist": rng.choice([1, 1, 2, 3]),
                   "sym": rng.random() < 0.5, "dtype": dt, "layout": lay,
                   "iz": rng.random() < 0.3,
                   # rarely used switches of haralick(): Haralick's printed (mis-typed) sum variance, the variance of the
                   # |x-y| distribution instead of the variance of its values, and the summaries over the directions
                   "hopts": {"bug": rng.random() < 0.3, "xmyvar": rng.random() < 0.3, "summary": rng.choice([None, None, "mean", "mean_ptp"])}}
        elif kind == "lbp":
            shape = [rng.randint(3, 9), rng.randint(3, 9)]
            yield {"kind": kind, "shape": shape, "vals": [rng.randint(0, 9) for _ in range(gen.size(shape))], "radius": rng.choice([1, 2]),
                   "P": rng.choice([4, 6, 8]), "dtype": rng.choice(["uint8", "float64", "int32"]), "layout": lay, "iz": rng.random() < 0.3}
        elif kind == "zernike":
            s = rng.randint(5, 12)
            yield {"kind": kind, "shape": [s, s], "vals": [rng.randint(0, 9) for _ in range(s * s)], "radius": rng.choice([2, 3, s // 2]),
                   "degree": rng.choice([4, 8]), "layout": lay}
        elif kind == "moments":
            shape = [rng.randint(1, 6), rng.randint(1, 6)]
            dt = rng.choice(["int32", "float64", "uint8", "int64"])
            yield {"kind": kind, "shape": shape, "vals": [rng.randint(0 if dt == "uint8" else -5, 9) for _ in range(gen.size(shape))],
                   "p0": rng.randint(0, 3), "p1": rng.randint(0, 3), "cm": rng.choice([None, [rng.randint(0, 3), rng.randint(0, 3)]]),
                   "layout": lay, "dtype": dt}
        else:
            shape = [rng.randint(1, 8), rng.randint(1, 8)]
            c = {"kind": kind, "shape": shape, "vals": [rng.randint(0, 9) for _ in range(gen.size(shape))], "layout": lay,
                 "dtype": rng.choice(["uint8", "float64", "int32", "float32", "uint16", "int64"]), "inplace": rng.random() < 0.3}
            if rng.random() < 0.3:
                # an integer accumulator dtype with prefix sums beyond 2**53: exact in int64/uint64, not in a double
                c["acc"] = rng.choice(["int64", "uint64"])
                c["vals"] = [rng.choice([2 ** 53 + 1, 2 ** 52 + 3, 1, 7, 2 ** 58 + 1]) for _ in range(gen.size(shape))]
                c["dtype"] = c["acc"]
            yield c


def count_pairs(a, delta):
    m = int(a.max()) + 1
    c = np.zeros((m, m), np.int64)
    for p in itertools.product(*[range(s) for s in a.shape]):
        q = tuple(x + d for x, d in zip(p, delta))
        if all(0 <= x < s for x, s in zip(q, a.shape)):
            c[a[p], a[q]] += 1
    return c


def haralick_ref(P):
    """the 13 textbook features of a normalised co-occurrence matrix (independent evaluation)"""
    N = P.shape[0]
    i, j = np.mgrid[:N, :N]
    px = P.sum(1)
    py = P.sum(0)
    ux = (np.arange(N) * px).sum()
    uy = (np.arange(N) * py).sum()
    sx = np.sqrt(((np.arange(N) - ux) ** 2 * px).sum())
    sy = np.sqrt(((np.arange(N) - uy) ** 2 * py).sum())
    pxpy = np.array([P[(i + j) == k].sum() for k in range(2 * N - 1)])
    pxmy = np.array([P[np.abs(i - j) == k].sum() for k in range(N)])

    def ent(p):
        p = p[p > 0]
        return -(p * np.log2(p)).sum()
    f = [
        (P ** 2).sum(),
        (np.arange(N) ** 2 * pxmy).sum(),
        1.0 if sx == 0 or sy == 0 else ((i * j * P).sum() - ux * uy) / (sx * sy),    # zero variance: undefined; the code fixes it to 1
        ((i - ux) ** 2 * P).sum(),
        (P / (1.0 + (i - j) ** 2)).sum(),
        (np.arange(2 * N - 1) * pxpy).sum(),
    ]
    sa = f[5]
    f.append(((np.arange(2 * N - 1) - sa) ** 2 * pxpy).sum())
    f.append(ent(pxpy))
    f.append(ent(P.reshape(-1)))
    f.append(pxmy.var())
    f.append(ent(pxmy))
    HX, HY, HXY = ent(px), ent(py), f[8]
    pp = np.outer(px, py)
    mask = pp > 0
    HXY1 = -(P[mask] * np.log2(pp[mask])).sum()
    HXY2 = -(pp[mask] * np.log2(pp[mask])).sum()
    f.append((HXY - HXY1) / max(HX, HY) if max(HX, HY) != 0 else (HXY - HXY1))
    f.append(np.sqrt(max(0.0, 1 - np.exp(-2 * (HXY2 - HXY)))))
    return np.array(f)


def run_case(ctx, case):
    mh = ctx.mh
    from mahotas import features
    from mahotas.features import texture, _lbp, surf
    kind = case["kind"]
    if kind == "lbpmap":
        P = case["P"]
        codes = np.arange(2 ** P, dtype=np.uint32)
        got = _lbp.map(codes.copy(), P)
        want = ctx.model.ints("lbp_map %d %s" % (P, enc_list(list(range(2 ** P)))))[0]
        if [int(v) for v in got] != want:
            k = next(i for i, (g, w) in enumerate(zip(got, want)) if int(g) != w)
            return Result(False, True, {"why": "_lbp.map != least rotation (model)", "P": P, "code": k, "got": int(got[k]), "want": want[k]})
        # same bin <=> cyclic rotations of one another
        def rot(v):
            return (v >> 1) | ((v & 1) << (P - 1))
        for v in range(0, 2 ** P, max(1, 2 ** P // 257)):
            cls = set()
            x = v
            for _ in range(P):
                cls.add(x)
                x = rot(x)
            if len({want[c] for c in cls}) != 1 or want[v] != min(cls):
                return Result(False, True, {"why": "rotation class not mapped to one bin", "P": P, "code": v})
        return Result(True, True, None, "lbpmap/P%d" % P)
    if kind == "lbpmap_sampled":
        import random as _r
        P = case["P"]
        r2 = _r.Random(case["seed"])
        mask = (1 << P) - 1
        codes = {0, mask, 1, 1 << (P - 1), (1 << (P // 2)) - 1, int("01" * 16, 2) & mask, int("011" * 11, 2) & mask}
        for _ in range(300):
            codes.add(r2.getrandbits(P))
            k, w = r2.randrange(P), r2.randint(1, P)
            run = ((1 << w) - 1) & mask
            codes.add(((run << k) | (run >> (P - k))) & mask)          # a run of w ones starting at bit k (cyclically)
        for v in list(codes)[:200]:
            k = r2.randrange(P)
            codes.add(((v >> k) | (v << (P - k))) & mask)              # a rotation of a code already present
        codes = sorted(codes)
        got = _lbp.map(np.array(codes, dtype=np.uint32), P)
        want = ctx.model.ints("lbp_map %d %s" % (P, enc_list(codes)))[0]
        for c, g, w in zip(codes, got, want):
            mn = min(((c >> k) | (c << (P - k))) & mask for k in range(P))
            if int(g) != w or w != mn:
                return Result(False, True, {"why": "_lbp.map != least rotation", "P": P, "code": c, "got": int(g), "model": w, "least_rotation": mn})
        return Result(True, True, None, "lbpmap/P%d/sampled" % P)
    a0 = np.array(case["vals"], dtype=np.dtype(case.get("dtype", "float64"))).reshape(case["shape"])
    a = apply_layout(a0, case["layout"], fill=1)
    keep = a.copy()
    if kind in ("cooc", "haralick"):
        nd = a0.ndim
        deltas = D2 if nd == 2 else D3
        dist = case["dist"]
        if kind == "cooc":
            delta = [dist * d for d in deltas[case["dir"]]]
            got = texture.cooccurence(a, case["dir"], symmetric=case["sym"], distance=dist)
            if not np.array_equal(a, keep):
                return Result(False, True, {"why": "input modified"})
            ref = count_pairs(a0.astype(np.int64), delta)
            if case["sym"]:
                ref = ref + ref.T
            m = ref.shape[0]
            gl = [int(v) for v in np.asarray(got).reshape(-1)]
            # the extracted model updates an m*m list per pair: used up to 64 grey levels; 256-level cases rely on the direct count
            want = ctx.model.ints("cooc %d %d %s %s" % (1 if case["sym"] else 0, m, enc_arr(a0.astype(np.int64)), enc_list(delta)))[0] \
                if m <= 64 else gl
            if got.shape != (m, m) or gl != [int(v) for v in ref.reshape(-1)]:
                return Result(False, True, {"why": "cooccurence != count of ordered pixel pairs at the offset", "delta": delta,
                                            "want": ref.tolist(), "got": np.asarray(got).tolist()})
            if gl != want:
                return Result(False, True, {"why": "cooccurence != model"})
            if case["sym"]:
                r180 = texture.cooccurence(np.ascontiguousarray(a0[tuple(slice(None, None, -1) for _ in range(nd))]), case["dir"],
                                           symmetric=True, distance=dist)
                if not np.array_equal(r180, got):
                    return Result(False, True, {"why": "symmetric cooccurence not invariant under 180-degree rotation"})
            return Result(True, len(set(case["vals"])) > 1, None, "cooc/%dD/%s" % (nd, "sym" if case["sym"] else "asym"))
        if a0.max() == 0:
            return Result(True, False, None, "haralick/skip-zero")
        iz = case["iz"]
        ho = case.get("hopts") or {}
        hkw = {"preserve_haralick_bug": bool(ho.get("bug")), "use_x_minus_y_variance": bool(ho.get("xmyvar"))}
        try:
            h = features.haralick(a, ignore_zeros=iz, distance=dist, **hkw)
        except ValueError:
            return Result(True, False, None, "haralick/valueerror")       # e.g. no non-zero pairs with ignore_zeros
        if not np.array_equal(a, keep):
            return Result(False, True, {"why": "input modified"})
        for d, delta in enumerate(deltas):
            C = count_pairs(a0.astype(np.int64), [dist * x for x in delta]).astype(np.float64)
            C = C + C.T
            if iz:
                C[0, :] = 0
                C[:, 0] = 0
            if C.sum() == 0:
                continue
            Pn = C / C.sum()
            ref = haralick_ref(Pn)
            if ho.get("bug") or ho.get("xmyvar"):
                Nn = Pn.shape[0]
                ii, jj = np.mgrid[:Nn, :Nn]
                pxpy = np.array([Pn[(ii + jj) == k].sum() for k in range(2 * Nn - 1)])
                pxmy = np.array([Pn[np.abs(ii - jj) == k].sum() for k in range(Nn)])
                if ho.get("bug"):       # sum variance around the sum ENTROPY (f8), as printed in the 1973 paper
                    ref[6] = ((np.arange(2 * Nn - 1) - ref[7]) ** 2 * pxpy).sum()
                if ho.get("xmyvar"):    # variance of the distribution of |x - y|
                    mu = (np.arange(Nn) * pxmy).sum()
                    ref[9] = ((np.arange(Nn) - mu) ** 2 * pxmy).sum()
            if not np.allclose(h[d], ref, rtol=1e-7, atol=1e-9):
                k = int(np.argmax(np.abs(h[d] - ref)))
                return Result(False, True, {"why": "haralick feature %d (direction %d) != textbook definition" % (k, d),
                                            "got": float(h[d][k]), "want": float(ref[k]), "ignore_zeros": iz})
        if ho.get("summary"):
            hs = features.haralick(a, ignore_zeros=iz, distance=dist, return_mean=ho["summary"] == "mean",
                                   return_mean_ptp=ho["summary"] == "mean_ptp", **hkw)
            want = h.mean(0) if ho["summary"] == "mean" else np.concatenate([h.mean(0), np.ptp(h, 0)])
            if np.shape(hs) != want.shape or not np.allclose(hs, want, rtol=1e-12, atol=1e-12):
                return Result(False, True, {"why": "haralick(%s) is not the mean (and range) over the directions" % ho["summary"]})
        r = features.haralick(np.ascontiguousarray(a0[tuple(slice(None, None, -1) for _ in range(nd))]), ignore_zeros=iz, distance=dist, **hkw)
        if not np.allclose(r, h, rtol=1e-9, atol=1e-12):
            return Result(False, True, {"why": "haralick not invariant under 180-degree rotation"})
        if nd == 2:
            t = features.haralick(np.ascontiguousarray(a0.T), ignore_zeros=iz, distance=dist, **hkw)
            if not np.allclose(t[[2, 1, 0, 3]], h, rtol=1e-9, atol=1e-12):
                return Result(False, True, {"why": "haralick: transposition does not permute the directions (0<->2, 1, 3 fixed)"})
        return Result(True, len(set(case["vals"])) > 1, None, "haralick/%dD%s" % (nd, "/iz" if iz else ""))
    if kind == "lbp":
        P, R, iz = case["P"], case["radius"], case["iz"]
        hist = features.lbp(a, R, P, ignore_zeros=iz)
        if not np.array_equal(a, keep):
            return Result(False, True, {"why": "input modified"})
        npix = int((a0 != 0).sum()) if iz else a0.size
        want_bins = len({tuple(sorted({((v >> k) | (v << (P - k))) & (2 ** P - 1) for k in range(P)})) for v in range(2 ** P)})
        if len(hist) != want_bins:
            return Result(False, True, {"why": "lbp histogram does not have one bin per rotation class", "bins": len(hist), "classes": want_bins})
        if int(round(float(np.sum(hist)))) != npix or (np.asarray(hist) < 0).any():
            return Result(False, True, {"why": "lbp histogram does not sum to the number of pixels considered", "sum": float(np.sum(hist)), "pixels": npix})
        return Result(True, len(set(case["vals"])) > 1, None, "lbp/P%d%s" % (P, "/iz" if iz else ""))
    if kind == "zernike":
        s = case["shape"][0]
        img = a0.astype(np.float64)
        cm = ((s - 1) / 2.0, (s - 1) / 2.0)
        z = features.zernike_moments(apply_layout(img, case["layout"]), case["radius"], degree=case["degree"], cm=cm)
        zr = features.zernike_moments(np.ascontiguousarray(np.rot90(img)), case["radius"], degree=case["degree"], cm=cm)
        zs = features.zernike_moments(img * 3.5, case["radius"], degree=case["degree"], cm=cm)
        if not np.allclose(z, zr, rtol=1e-9, atol=1e-9):
            return Result(False, True, {"why": "Zernike magnitudes not invariant under 90-degree rotation about the centre",
                                        "maxdiff": float(np.abs(z - zr).max())})
        if not np.allclose(z, zs, rtol=1e-9, atol=1e-9):
            return Result(False, True, {"why": "Zernike magnitudes not invariant under intensity scaling"})
        return Result(True, len(set(case["vals"])) > 1, None, "zernike")
    if kind == "moments":
        cm = case["cm"]
        got = mh.moments(a, case["p0"], case["p1"], cm=cm)
        if not np.array_equal(a, keep):
            return Result(False, True, {"why": "input modified"})
        c0, c1 = (cm if cm else (0, 0))
        want = ctx.model.ints("moments %s %d %d %d %d" % (enc_arr(a0.astype(np.int64)), case["p0"], case["p1"], c0, c1))[0][0]
        if float(got) != float(want):
            return Result(False, True, {"why": "moments != defining sum", "got": float(got), "want": want})
        return Result(True, len(set(case["vals"])) > 1, None, "moments")
    if kind == "integral" and case.get("acc"):
        a64 = np.array(case["vals"], dtype=np.dtype(case["acc"])).reshape(case["shape"])
        src = apply_layout(a64, case["layout"] if case["layout"] != "readonly" else "C", fill=1)
        got = surf.integral(src, in_place=True) if case["inplace"] else surf.integral(src, dtype=np.dtype(case["acc"]))
        ref = np.array(case["vals"], dtype=object).reshape(case["shape"]).cumsum(0).cumsum(1)
        if got.shape != a64.shape or got.dtype != a64.dtype or [int(v) for v in got.reshape(-1)] != [int(v) for v in ref.reshape(-1)]:
            return Result(False, True, {"why": "surf.integral with a 64-bit integer dtype != exact two-dimensional prefix sum",
                                        "dtype": case["acc"], "want": [int(v) for v in ref.reshape(-1)], "got": [int(v) for v in got.reshape(-1)]})
        return Result(True, True, None, "integral/" + case["acc"])
    if kind == "integral":
        if case["inplace"]:
            # in place on a view of any writable layout (the kernel may not assume contiguous rows); as doubles, so that every
            # in-place case exercises this
            a0 = a0.astype(np.float64)
            b = apply_layout(a0, case["layout"] if case["layout"] != "readonly" else "C", fill=1)
            got = surf.integral(b, in_place=True)
        else:
            got = surf.integral(a)
            if not np.array_equal(a, keep):
                return Result(False, True, {"why": "input modified (in_place=False)"})
        want = ctx.model.ints("integral %s" % enc_arr(a0.astype(np.int64)))[0]
        ref = a0.astype(np.int64).cumsum(0).cumsum(1)
        gl = [float(v) for v in np.asarray(got).reshape(-1)]
        if got.shape != a0.shape or gl != [float(v) for v in want] or want != [int(v) for v in ref.reshape(-1)]:
            return Result(False, True, {"why": "surf.integral != two-dimensional prefix sum", "layout": case["layout"], "dtype": case["dtype"],
                                        "want": ref.tolist(), "got": np.asarray(got).tolist()})
        return Result(True, len(set(case["vals"])) > 1, None, "integral/%s" % ("inplace" if case["inplace"] else "copy"))
    raise ValueError(kind)


def shrink(ctx, case):
    if case.get("layout", "C") != "C":
        c = dict(case); c["layout"] = "C"; yield c
