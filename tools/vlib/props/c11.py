"""C11: invalid or degenerate arguments fail well: an exception, never a crash or hang (logic + runtime)."""
import copy
import random
import numpy as np
from vlib.harness import Result
from vlib import registry as R
from vlib import isolate

ID = "C11"
RULE = ("every registry function (%d public entry points) x argument tuples drawn from a grammar of degenerate values applied to a "
        "valid call: an array argument replaced by a 0-d array, by zero-sized arrays, by arrays with one axis fewer/more, by "
        "float16/complex/object/bool/uint64 arrays, by arrays whose shape disagrees with the paired argument, by non-arrays (None, "
        "list, str), by arrays holding extreme values (dtype min/max, negative labels, nan, inf); a scalar argument - including every "
        "numeric, string or None-defaulted parameter of the public signature that a normal call leaves implicit - replaced by 0, -1, 1, "
        "2**31, -2**31, 2**62, 0.0, -1.5, 1e300, nan and by the largest values that still fit a C int / npy_intp (2**31-1, 2**30, 46341, "
        "2**63-1, -2**63); mode strings by every border mode and invalid ones; sequences (shifts, zooms, "
        "sigmas) by empty, wrong-length, nan, inf and 1e300 entries; slots are visited round-robin. Each call is also repeated on the "
        "AddressSanitizer build, where an out-of-bounds access that does not crash is reported. Every call runs in an "
        "isolated worker with a wall-clock limit and RLIMIT_AS; the outcome must be a result or a Python exception and the worker "
        "must stay usable (it goes on to serve the following requests); a signal, abort, sanitizer-free heap corruption message or "
        "timeout is a violation with the call as replay. Non-trivial: the call raised or returned (all do) Output-buffer family: every function with out=/output= x {one rank fewer / more, 0-d, empty, too small, too large, read-only on an immutable bytes object, list, str} x several dtypes; a write through the read-only buffer is a violation." % len(R.REG))
NOT_PROVED = ["crash-freedom of the compiled code is observed, not proved; the Coq theorems state that the argument guards of the native "
              "entry points (re-translated from the C++ sources) contain the checks the kernels rely on"]
BUDGET_S = {"quick": 500, "thorough": 3000}
CALL_LIMIT_S = 20
SCALARS = [0, -1, 1, 2 ** 31, -2 ** 31, 2 ** 62, 0.0, -1.5, 1e300, float("nan")]
# values that still FIT the C types the wrappers parse into (int, npy_intp) -- so no OverflowError stops them -- but whose double,
# square or sum does not: INT_MAX, 2**30 (2*S overflows), 46341 (S*S overflows), LONG_MAX, LONG_MIN
SCALARS_FIT = [2 ** 31 - 1, 2 ** 30, 46341, 65537, 2 ** 63 - 1, -2 ** 63, 2 ** 31 - 2]
BADT = ["float16", "complex64", "bool", "uint64", "int8", "float32"]


# Parameters that are documented as the amount of output/work requested (a number of moments, a radius in pixels of a
# structuring element to allocate): a huge value asks for a proportionally huge computation bounded by the memory limit,
# which is not a hang of a degenerate call.  They still receive 0, negative, fractional and NaN values.
WORK_PARAMS = {("features.zernike_moments", "degree"), ("features.zernike", "degree"), ("features.zernike", 1),
               # minlength is the length of the returned array: 2**31 entries are allocated and filled as asked
               ("labeled_sum", "minlength"), ("labeled.labeled_sum", "minlength"), ("labeled.labeled_max", "minlength"),
               ("labeled.labeled_min", "minlength"), ("labeled.labeled_size", "minlength")}


def mutate(rng, args, kwargs, fn=None, slot=None):
    """one degenerate mutation of a valid call; returns (args, kwargs, description)"""
    args = copy.deepcopy(args)
    kwargs = copy.deepcopy(kwargs)
    slots = [("a", i) for i in range(len(args))] + [("k", k) for k in kwargs]
    kind, key = slot if slot is not None else rng.choice(slots)
    cur = args[key] if kind == "a" else kwargs[key]

    def put(v):
        if kind == "a":
            args[key] = v
        else:
            kwargs[key] = v
    if isinstance(cur, dict) and "arr" in cur:
        sh = cur["shape"]
        m = rng.choice(["zero", "zero", "0d", "ndim-", "ndim+", "ndim+3", "ndim+3", "dtype", "shape", "none", "list", "object", "str", "one",
                        "values", "values", "shape-", "wide", "wide"])
        if m == "zero":
            z = list(sh)
            z[rng.randrange(len(z))] = 0
            put({"special": "zeros", "shape": z, "dtype": cur["arr"]})
        elif m == "0d":
            put({"special": "scalar0d", "dtype": cur["arr"]})
        elif m == "ndim-":
            put(R.A(cur["arr"], sh[:-1] or [1], cur["vals"][:max(1, int(np.prod(sh[:-1] or [1])))]) if len(sh) > 1 else {"special": "scalar0d", "dtype": cur["arr"]})
        elif m == "ndim+":
            put(R.A(cur["arr"], [1] + sh, cur["vals"]))
        elif m == "ndim+3":
            # one axis more, of length 3, in the dtype of the FIRST array argument (a wrapper that only converts "foreign" arrays
            # must still check the rank of one that needs no conversion)
            first = next((x for x in args if isinstance(x, dict) and "arr" in x), cur)
            dt = first["arr"]
            vals = [(abs(int(v)) % 2 if dt == "bool" else (abs(int(v)) % 100 if not dt.startswith("float") else float(v))) for v in cur["vals"]] * 3
            put(R.A(dt, [3] + sh, vals))
        elif m == "dtype":
            dt = rng.choice(BADT)
            vals = [abs(int(v)) % 2 if dt == "bool" else (abs(v) if dt.startswith("u") else (int(v) % 128 if dt == "int8" else v))
                    for v in cur["vals"]]
            put(R.A(dt, sh, [float(v) if dt in ("float16", "float32", "complex64") else int(v) for v in vals]))
        elif m == "shape":
            nsh = [s + rng.choice([1, 2]) for s in sh]
            n = int(np.prod(nsh))
            put(R.A(cur["arr"], nsh, (cur["vals"] * (n // max(1, len(cur["vals"])) + 1))[:n]))
        elif m == "shape-":
            nsh = [max(1, s - rng.choice([1, 2])) for s in sh]
            put(R.A(cur["arr"], nsh, cur["vals"][:int(np.prod(nsh))]))
        elif m == "values":
            dt = cur["arr"]
            info = None if dt == "bool" or dt.startswith("float") else np.iinfo(np.dtype(dt))
            if dt == "bool":
                pool = [0, 1]
            elif info is None:
                pool = [float("nan"), float("inf"), -float("inf"), 1e300 if dt == "float64" else 1e38, -1e300 if dt == "float64" else -1e38, 0.0, -0.0]
            else:
                pool = [int(info.min), int(info.max), 0, -1 if info.min < 0 else 1, -5 if info.min < 0 else int(info.max) - 1,
                        -100000 if info.min < -100000 else 3]
            vals = list(cur["vals"])
            for i in rng.sample(range(len(vals)), max(1, len(vals) // rng.choice([1, 2, 8]))) if vals else []:
                vals[i] = rng.choice(pool)
            put(R.A(dt, sh, vals))
        elif m == "wide":
            # the same array in a wider integer type holding values that do not fit a C int (a label map read from a 64-bit file,
            # unsigned ids with the top bit set): whatever narrows them must not let them through as indices
            dt = rng.choice(["int64", "uint32", "uint64", "int64"])
            pool = {"int64": [2 ** 31, 2 ** 32, 2 ** 32 + 1, 2 ** 63 - 1, -(2 ** 31) - 1, -(2 ** 63)],
                    "uint32": [2 ** 31, 2 ** 32 - 1, 2 ** 31 + 5], "uint64": [2 ** 31, 2 ** 32, 2 ** 63, 2 ** 64 - 1]}[dt]
            vals = [abs(int(v)) % 100 if not isinstance(v, bool) else int(v) for v in cur["vals"]]
            for i in rng.sample(range(len(vals)), max(1, len(vals) // rng.choice([2, 8, 16]))) if vals else []:
                vals[i] = rng.choice(pool)
            put(R.A(dt, sh, vals))
        elif m == "one":
            put(R.A(cur["arr"], [1] * len(sh), cur["vals"][:1]))
        else:
            put({"special": m})
        return args, kwargs, "%s%s:%s" % (kind, key, m)
    if isinstance(cur, (int, float)) and not isinstance(cur, bool):
        v = rng.choice(SCALARS_FIT) if rng.random() < 0.4 else rng.choice(SCALARS)
        if (fn, key) in WORK_PARAMS and isinstance(v, (int, float)) and abs(v) > 64:
            v = 64                  # see WORK_PARAMS
        put(v)
        return args, kwargs, "%s%s:scalar=%r" % (kind, key, v)
    if isinstance(cur, list):
        n = max(1, len(cur))
        v = rng.choice([[], [0] * 7, [-1], [2 ** 40], None, [float("nan")] * n, [float("inf")] * n, [1e300] * n, [-1e15] * n,
                        [0] * n, [-3] * n, [4 * 7.0] * n, [1e-300] * n])
        put(v)
        return args, kwargs, "%s%s:list=%r" % (kind, key, v)
    if isinstance(cur, str):
        v = rng.choice(R.MODES + ["bogus", "", None, 3])
        put(v)
        return args, kwargs, "%s%s:str=%r" % (kind, key, v)
    v = rng.choice([None, 0, -1, "x", 2 ** 62, float("nan")])
    put(v)
    return args, kwargs, "%s%s:other=%r" % (kind, key, v)


def defaulted_params(ctx, name, nargs, kwargs):
    """parameters of the public signature that the generated call leaves at their default (scalars, strings, None)"""
    import inspect
    try:
        sig = inspect.signature(R.resolve(ctx.mh, name))
    except (TypeError, ValueError, AttributeError, ImportError):
        return {}
    out = {}
    for i, (pn, p) in enumerate(sig.parameters.items()):
        if i < nargs or pn in kwargs or p.kind in (p.VAR_POSITIONAL, p.VAR_KEYWORD) or p.default is inspect.Parameter.empty:
            continue
        if pn in ("out", "output"):
            continue
        d = p.default
        if isinstance(d, bool) or d is None or isinstance(d, (int, float, str)):
            out[pn] = d
    return out


def gen_requests(ctx):
    rng = random.Random(ctx.seed + 11)
    per = 24 if ctx.tier == "quick" else 120
    reqs = []
    for e in R.REG:
        for k in range(per):
            try:
                args, kwargs = e.gen(rng)
                extra = defaulted_params(ctx, e.name, len(args), kwargs)
                kw2 = dict(kwargs)
                for pn, d in extra.items():
                    kw2[pn] = 0 if d is None else d        # None default: try numbers
                slots = [("a", i) for i in range(len(args))] + [("k", kk) for kk in kw2]
                slot = slots[k % len(slots)]
                a2, k2, desc = mutate(rng, args, kw2, e.name, slot)
                # keep only the mutated default-valued parameter, the others stay implicit
                k2 = {kk: v for kk, v in k2.items() if kk in kwargs or ("k", kk) == slot}
            except Exception:
                continue
            reqs.append({"id": "%s#%d" % (e.name, k), "fn": e.name, "args": a2, "kwargs": k2, "desc": desc})
    reqs += out_requests(ctx, rng)
    return reqs


def out_requests(ctx, rng):
    """degenerate OUTPUT buffers: every function with an out= / output= parameter gets, on an otherwise valid call, a buffer of the
    wrong rank, a 0-d and a zero-sized one, one that is too small or too large, non-arrays, and a READ-ONLY buffer of the right
    shape (on top of an immutable bytes object) in several dtypes: the call must raise or return, and nothing may be written
    through the read-only buffer"""
    import inspect
    reqs = []
    per = 8 if ctx.tier == "quick" else 40
    for e in R.REG:
        try:
            params = inspect.signature(R.resolve(ctx.mh, e.name)).parameters
        except (TypeError, ValueError, AttributeError, ImportError):
            continue
        kws = [k for k in ("out", "output") if k in params]
        if not kws:
            continue
        for k in range(per):
            try:
                args, kwargs = e.gen(rng)
            except Exception:
                continue
            first = next((a for a in args if isinstance(a, dict) and "arr" in a), None)
            if first is None:
                continue
            sh, dt = list(first["shape"]), first["arr"]
            odt = rng.choice([dt, dt, "bool", "int32", "float64", "intc"])
            kind = ["rank-", "rank+", "0d", "empty", "small", "large", "frozen", "frozen", "list", "str"][k % 10]
            if kind == "rank-":
                spec = {"special": "zeros", "shape": [5] if len(sh) > 1 else [], "dtype": odt}
            elif kind == "rank+":
                spec = {"special": "zeros", "shape": [1] + sh, "dtype": odt}
            elif kind == "0d":
                spec = {"special": "scalar0d", "dtype": odt}
            elif kind == "empty":
                spec = {"special": "zeros", "shape": [0] * len(sh), "dtype": odt}
            elif kind == "small":
                spec = {"special": "zeros", "shape": [max(1, d - rng.choice([1, 2, d - 1])) for d in sh], "dtype": odt}
            elif kind == "large":
                spec = {"special": "zeros", "shape": [d + rng.choice([1, 3]) for d in sh], "dtype": odt}
            elif kind == "frozen":
                spec = {"special": "frozen", "shape": sh, "dtype": odt}
            else:
                spec = {"special": kind}
            kw = dict(kwargs)
            kw[rng.choice(kws)] = spec
            reqs.append({"id": "%s#out%d" % (e.name, k), "fn": e.name, "args": args, "kwargs": kw, "desc": "out buffer: %s %s" % (kind, odt)})
    return reqs


def run_reqs(ctx, reqs):
    import os
    os.environ["VERIF_ANY_EXC"] = "1"
    os.environ["VERIF_NO_CANON"] = "1"       # results may be huge (minlength=2**31); only the kind of outcome matters here
    os.environ["VERIF_CALL_ALARM"] = str(CALL_LIMIT_S)
    try:
        out = []
        chunk = 120
        for s in range(0, len(reqs), chunk):
            out += isolate.run_batch(ctx.lib, reqs[s:s + chunk], timeout_per_call=25, mem_gb=6)
        return out
    finally:
        os.environ.pop("VERIF_ANY_EXC", None)
        os.environ.pop("VERIF_NO_CANON", None)
        os.environ.pop("VERIF_CALL_ALARM", None)


def run_asan(ctx, reqs):
    """the same calls on the AddressSanitizer build: an out-of-bounds access that happens not to crash is a corruption too"""
    import os
    from vlib import build as vbuild
    lib = getattr(ctx, "asan_lib", None)
    if lib is None:
        lib, info = vbuild.build(asan=True)
        ctx.asan_lib = lib
    os.environ["VERIF_ANY_EXC"] = "1"
    os.environ["VERIF_NO_CANON"] = "1"
    try:
        out = []
        for s in range(0, len(reqs), 150):
            out += isolate.run_batch(lib, reqs[s:s + 150], asan=True, timeout_per_call=90)
        return out
    finally:
        os.environ.pop("VERIF_ANY_EXC", None)


def setup(ctx):
    reqs = gen_requests(ctx)
    res = run_reqs(ctx, reqs)
    ctx.c11_out = {r["id"]: (r, o) for r, o in zip(reqs, res)}
    # memory-hungry requests (MemoryError / killed by the limit in the plain run) are not repeated without RLIMIT_AS
    sel = [r for r, o in zip(reqs, res) if o is not None and "crash" not in o and "hang" not in o and o.get("exc") != "MemoryError"
           and o.get("elapsed", 0) < 5]
    ares = run_asan(ctx, sel)
    ctx.c11_asan = {r["id"]: (r, o) for r, o in zip(sel, ares)}
    ctx.stats["asan_calls"] = len(sel)
    ctx.stats["isolated_calls"] = len(reqs)
    kinds = {}
    for r, o in zip(reqs, res):
        k = "result" if (o and o.get("exc") is None and "crash" not in o and "hang" not in o) else (o.get("exc") if o and "exc" in o else "crash/hang")
        kinds[k] = kinds.get(k, 0) + 1
    ctx.stats["outcome_kinds"] = kinds


def cases(ctx):
    for rid, (r, o) in ctx.c11_out.items():
        yield {"req": r}


def run_case(ctx, case):
    r = case["req"]
    out = getattr(ctx, "c11_out", {})
    if r["id"] in out and out[r["id"]][0] == r:
        o = out[r["id"]][1]
    else:
        o = run_reqs(ctx, [r])[0]
    if o is None:
        return Result(False, True, {"why": "no outcome", "fn": r["fn"]})
    ao = None
    asan = getattr(ctx, "c11_asan", None)
    if asan is not None and r["id"] in asan and asan[r["id"]][0] == r:
        ao = asan[r["id"]][1]
    elif "crash" not in o and "hang" not in o and o.get("exc") != "MemoryError" and o.get("elapsed", 0) < 5:
        ao = run_asan(ctx, [r])[0]          # corpus case or replay of a single case
    if ao is not None and "crash" in ao and "AddressSanitizer" in ao["crash"].get("stderr", "") \
            and "requested allocation size" not in ao["crash"].get("stderr", "") and "out of memory" not in ao["crash"].get("stderr", ""):
        err = ao["crash"]["stderr"]
        lines = [l for l in err.splitlines() if "ERROR: AddressSanitizer" in l or l.strip()[:2] in ("#0", "#1", "#2") or "is located" in l]
        return Result(False, True, {"why": "%s: invalid memory access on a degenerate argument (%s), reported by AddressSanitizer"
                                    % (r["fn"], r.get("desc")), "asan": lines[:8]})
    if "crash" in o and o["crash"].get("returncode") == -14:
        return Result(False, True, {"why": "%s did not return within %d s on a degenerate argument (%s): killed by the per-call alarm"
                                    % (r["fn"], CALL_LIMIT_S, r.get("desc"))})
    if "crash" in o:
        return Result(False, True, {"why": "%s crashed the interpreter on a degenerate argument (%s)" % (r["fn"], r.get("desc")),
                                    "returncode": o["crash"].get("returncode"), "stderr": o["crash"].get("stderr", "")[-400:]})
    if "hang" in o:
        return Result(False, True, {"why": "%s did not return within the time limit on a degenerate argument (%s)" % (r["fn"], r.get("desc"))})
    if o.get("readonly_modified"):
        return Result(False, True, {"why": "%s wrote through a read-only buffer (%s): the bytes object underneath is immutable"
                                    % (r["fn"], r.get("desc")), "outcome": o.get("exc")})
    return Result(True, True, None, "%s/%s" % (r["fn"], "exception" if o.get("exc") else "result"))
