"""C02: opening/closing/conditional/top-hat laws; subm."""
import itertools
import numpy as np
from vlib.harness import Result, enc_arr, DT_CODES, apply_layout, LAYOUTS, ROW_VIEWS
from vlib import gen

ID = "C02"
RULE = ("random (dtype in bool+unsigned [+signed for subm/cdilate/cerode] x ndim 1-3 x layouts) x regular elements "
        "(cross, boxes 3/5, disks r=1..3) x pairs (f,g); each case compares the 7 public functions with the Coq model and "
        "evaluates the lattice laws on the implementation's own outputs; subm: all 65536 uint8 and int8 pairs (thorough) plus "
        "boundary lattice of wider dtypes. Non-trivial: image not constant")
NOT_PROVED = ["the grey-scale laws are theorems for unsigned dtypes and FLAT elements at one height (what morph.py builds from boolean "
              "masks); non-flat grey elements are compared with the model only",
              "binary duality is a theorem for elements whose clamped neighbourhood relation is symmetric (cross, boxes, disks pass the "
              "executable test shrink_closedb; an asymmetric element provably fails it): for other elements only the outputs are compared",
              "the 2-D boolean fast path: opening and closing computed through the fast-path model are PROVED equal to the generic ones, and the laws follow (FastLaws.v); both hand-written models are tied to the compiled code by correspondence (row views, all layouts)"]
BUDGET_S = {"quick": 100, "thorough": 900}


def regular_se(rng, ndim):
    kind = rng.choice(["cross", "box3", "box5", "disk1", "disk2", "disk3", "boxr", "boxr"])
    if kind == "cross":
        b = np.zeros([3] * ndim, int)
        for pos in itertools.product(range(3), repeat=ndim):
            if sum(abs(p - 1) for p in pos) <= 1:
                b[pos] = 1
    elif kind == "boxr":   # centred boxes with unequal odd sides (1x3, 3x1, 3x5, ...)
        b = np.ones([rng.choice([1, 3, 5]) for _ in range(ndim)], int)
    elif kind.startswith("box"):
        b = np.ones([int(kind[3])] * ndim, int)
    else:
        r = int(kind[4])
        idx = np.indices([2 * r + 1] * ndim) - r
        b = ((idx ** 2).sum(0) < r * r).astype(int)
    return b, kind


def cases(ctx):
    rng = ctx.rng
    # subm scalar sweeps
    if ctx.tier == "thorough":
        yield {"kind": "subm8", "dtype": "uint8"}
        yield {"kind": "subm8", "dtype": "int8"}
    for dtype in gen.INT_DTYPES:
        yield {"kind": "subm_lattice", "dtype": dtype, "seed": rng.randrange(1 << 30)}
    yield from default_cases(ctx, rng)
    n = 500 if ctx.tier == "quick" else 6000
    nrow = 40 if ctx.tier == "quick" else 400     # boolean 2-D views with contiguous rows: the domain of the 2-D fast path
    for i in range(n + nrow):
        dtype = rng.choice(["bool", "bool", "uint8", "uint8", "uint16", "uint32", "uint64", "int8", "int16", "int32", "int64"])
        shape = gen.rand_shape(rng)
        rowview = i >= n
        if rowview:
            dtype, shape = "bool", [rng.randint(2, 9), rng.randint(2, 12)]
        N = gen.size(shape)
        lo, hi = gen.INT_INFO[dtype]
        clear = rng.random() < 0.7 and dtype != "bool"
        if clear:  # values clear of the saturation limits (two passes of height <= 1 each side... use margin 8)
            base = rng.choice([lo + 8, hi // 2, hi - 40]) if lo == 0 else rng.choice([-20, 0, 20])
            f = [base + rng.randint(0, 12) for _ in range(N)]
            g = [base + rng.randint(0, 12) for _ in range(N)]
        else:
            f = gen.rand_values(rng, dtype, N)
            g = gen.rand_values(rng, dtype, N)
        b, kind = regular_se(rng, len(shape))
        yield {"kind": "morph", "dtype": dtype, "shape": shape, "f": f, "g": g, "bshape": list(b.shape),
               "b": [int(v) for v in b.reshape(-1)], "se": kind, "clear": clear,
               "layout": rng.choice(ROW_VIEWS if rowview else LAYOUTS), "glayout": rng.choice(LAYOUTS), "n": rng.choice([1, 1, 2, 3, 7])}


def default_cases(ctx, rng):
    """the default element (Bc=None: the cross of the image's rank) after the caller has scribbled on an element that the
    public get_structuring_elem handed out earlier in the same process: what open/close/... use may not depend on that"""
    for i in range(30 if ctx.tier == "quick" else 300):
        dtype = rng.choice(["bool", "uint8", "uint16", "int32"])
        nd = rng.choice([1, 2, 2, 3])
        shape = [rng.randint(2, 6) for _ in range(nd)]
        N = gen.size(shape)
        lo, hi = gen.INT_INFO[dtype]
        base = 0 if dtype == "bool" else (hi // 2 if lo == 0 else 0)
        f = gen.rand_values(rng, dtype, N) if dtype == "bool" else [base + rng.randint(0, 12) for _ in range(N)]
        g = gen.rand_values(rng, dtype, N) if dtype == "bool" else [base + rng.randint(0, 12) for _ in range(N)]
        cross = np.zeros([3] * nd, int)
        for pos in np.ndindex(*cross.shape):
            if sum(abs(p - 1) for p in pos) <= 1:
                cross[pos] = 1
        yield {"kind": "morph", "dtype": dtype, "shape": shape, "f": f, "g": g, "bshape": [3] * nd,
               "b": [int(v) for v in cross.reshape(-1)], "se": "default", "clear": dtype != "bool", "default": True,
               "scribble": rng.choice(["zero", "centre", "ones", None]), "layout": rng.choice(LAYOUTS), "glayout": rng.choice(LAYOUTS),
               "n": rng.choice([1, 2, 3])}


def run_subm_pairs(ctx, dtype, pairs):
    a = np.array([p[0] for p in pairs], dtype=dtype)
    b = np.array([p[1] for p in pairs], dtype=dtype)
    got = ctx.mh.morph.subm(a, b)
    lo, hi = gen.INT_INFO[dtype]
    for (x, y), gv in zip(pairs, got):
        want = min(hi, max(lo, x - y))   # the Coq theorem subm_sat says model == this; the model is also asked below
        if int(gv) != want:
            return Result(False, True, {"why": "subm != clamped subtraction", "a": x, "b": y, "got": int(gv), "want": want})
    # model agreement on a subsample (the model is the generated Coq function)
    step = max(1, len(pairs) // 300)
    for (x, y), gv in list(zip(pairs, got))[::step]:
        m = ctx.model.ints("subm %s %d %d" % (DT_CODES[dtype] if dtype != "bool" else "b", x, y))[0][0]
        if m != int(gv):
            return Result(False, True, {"why": "subm implementation != generated model", "a": x, "b": y, "got": int(gv), "model": m})
    return Result(True, True, None, "subm/" + dtype)


def run_case(ctx, case):
    mh = ctx.mh
    if case["kind"] == "subm8":
        lo, hi = gen.INT_INFO[case["dtype"]]
        pairs = [(x, y) for x in range(lo, hi + 1) for y in range(lo, hi + 1)]
        ctx.stats["subm_pairs_exhaustive"] = ctx.stats.get("subm_pairs_exhaustive", 0) + len(pairs)
        return run_subm_pairs(ctx, case["dtype"], pairs)
    if case["kind"] == "subm_lattice":
        import random
        rng = random.Random(case["seed"])
        lo, hi = gen.INT_INFO[case["dtype"]]
        pts = sorted(set([lo, lo + 1, lo + 2, hi, hi - 1, hi - 2, 0, 1, 2, (lo + hi) // 2, (lo + hi) // 2 + 1] +
                         [rng.randint(lo, hi) for _ in range(8)]))
        pts = [p for p in pts if lo <= p <= hi]
        return run_subm_pairs(ctx, case["dtype"], [(x, y) for x in pts for y in pts])
    dtype = case["dtype"]
    code = DT_CODES[dtype]
    f0 = gen.mk(dtype, case["shape"], case["f"])
    g0 = gen.mk(dtype, case["shape"], case["g"])
    b0 = gen.mk(dtype, case["bshape"], case["b"])
    f = apply_layout(f0, case["layout"], fill=1)     # the memory around a view is not zero
    g = apply_layout(g0, case["glayout"], fill=1)
    ef, eg, eb = enc_arr(f0), enc_arr(g0), enc_arr(b0)
    fl = lambda x: [int(v) for v in np.asarray(x).reshape(-1)]
    M = ctx.model

    def bad(why, **kw):
        d = {"why": why}
        d.update(kw)
        return Result(False, True, d)

    bq = b0          # the element the model is asked about
    if case.get("default"):
        # a caller who obtained the default element from the public helper and changed it
        for code_ in (None, 1):
            try:
                e = mh.get_structuring_elem(f, code_)
                if case.get("scribble") == "zero":
                    e[...] = 0
                elif case.get("scribble") == "centre":
                    e[tuple([1] * e.ndim)] = 0
                elif case.get("scribble") == "ones":
                    e[...] = 1
            except (ValueError, TypeError):
                pass
        b0 = None      # the calls below use the default element
    outs = {}
    for name, call, q in [
        ("open", lambda: mh.open(f, b0), "open %s %s %s" % (code, ef, eb)),
        ("close", lambda: mh.close(f, b0), "close %s %s %s" % (code, ef, eb)),
        ("tophat_open", lambda: mh.morph.tophat_open(f, b0), "tophat_open %s %s %s" % (code, ef, eb)),
        ("tophat_close", lambda: mh.morph.tophat_close(f, b0), "tophat_close %s %s %s" % (code, ef, eb)),
        ("cdilate", lambda: mh.cdilate(f, g, b0, case["n"]), "cdilate %s %s %s %s %d" % (code, ef, eg, eb, case["n"])),
        ("cerode", lambda: mh.cerode(f, g, b0), "cerode %s %s %s %s" % (code, ef, eg, eb)),
        ("subm", lambda: mh.morph.subm(f, g), "subm_arr %s %s %s" % (code, ef, eg)),
    ]:
        keepf, keepg = f.copy(), g.copy()
        got = call()
        if not (np.array_equal(f, keepf) and np.array_equal(g, keepg)):
            return bad(name + " modified its input")
        want = M.ints(q)[0]
        if fl(got) != want or got.dtype != f0.dtype or got.shape != f0.shape:
            return bad("%s: implementation != model" % name, got=fl(got), want=want)
        outs[name] = np.asarray(got)
    # ---- laws on the implementation's outputs ----
    lawful = dtype == "bool" or (case["clear"] and dtype[0] == "u")
    o, c = outs["open"], outs["close"]
    lo, hi = gen.INT_INFO[dtype]
    if lawful:
        if not (o <= f0).all():
            return bad("open not anti-extensive", open=fl(o))
        if not (c >= f0).all():
            return bad("close not extensive", close=fl(c))
        if not np.array_equal(mh.open(o, b0), o):
            return bad("open not idempotent")
        if not np.array_equal(mh.close(c, b0), c):
            return bad("close not idempotent")
        hi_img = np.maximum(f0, g0)
        if not (mh.open(hi_img, b0) >= o).all() or not (mh.close(hi_img, b0) >= c).all():
            return bad("open/close not increasing")
        d_f, e_g = mh.dilate(f0, b0), mh.erode(g0, b0)
        if bool((d_f <= g0).all()) != bool((f0 <= e_g).all()):
            return bad("adjunction dilate(f)<=g <-> f<=erode(g) fails")
        if not np.array_equal(outs["tophat_open"].astype(object), f0.astype(object) - o.astype(object)):
            return bad("tophat_open != f - open(f)")
        if not np.array_equal(outs["tophat_close"].astype(object), c.astype(object) - f0.astype(object)):
            return bad("tophat_close != close(f) - f")
    if dtype == "bool":
        if not np.array_equal(mh.dilate(f0, b0), ~mh.erode(~f0, b0)):
            return bad("binary dilation is not the complement of the erosion of the complement")
    cd, ce = outs["cdilate"], outs["cerode"]
    if not ((np.minimum(f0, g0) <= cd).all() and (cd <= g0).all()):
        return bad("cdilate outside [min(f,g), g]", got=fl(cd))
    if not ((g0 <= ce).all() and (ce <= np.maximum(f0, g0)).all()):
        return bad("cerode outside [g, max(f,g)]", got=fl(ce))
    sub = outs["subm"].astype(object)
    exact = np.clip(f0.astype(object) - g0.astype(object), lo, hi) if dtype != "bool" else (f0 & ~g0).astype(object)
    if not np.array_equal(sub, exact):
        return bad("subm != clamped subtraction", got=fl(sub))
    return Result(True, len(set(case["f"])) > 1, None,
                  "%s/%dD/%s/%s" % ("bool" if dtype == "bool" else dtype[0], len(case["shape"]), case["se"],
                                    "clear" if case["clear"] else "any"))
