"""C14: local/regional extrema, close_holes, hitmiss = their definitions."""
import itertools
import numpy as np
from vlib.harness import Result, enc_arr, apply_layout, LAYOUTS
from vlib import gen

ID = "C14"
RULE = ("random images of 1-3 D x 11 numeric dtypes (floats as exact quarter-integers; ties and plateaus dense) x 7 layouts x "
        "cross/box (+ arbitrary elements against the model only) for locmax/locmin/regmax/regmin; 2-D binary images x templates "
        "3x3/1x3/3x1/1x1/3x5 (+ even-sized against the model only) over {0,1,2} for hitmiss; 2-D binary images x cross/box for "
        "close_holes. Each output is compared with the extracted Coq model and judged by the extracted Coq specification. "
        "thorough: all binary images <=3x4 for close_holes (cross, box) and hitmiss x all 3x3 templates sampled + all 1x3/3x1 "
        "templates. Non-trivial: image not constant Added: close_holes with asymmetric elements (one-sided, left/right only, diagonal only, random), judged by an independent evaluation of DIRECTED reachability p -> p + offset; hitmiss into a caller-supplied out buffer pre-filled with ones.")
NOT_PROVED = ["regmax/regmin are characterised by theorems for SYMMETRIC neighbourhoods (subset of the local extrema, plateau-closed, "
              "no regional extremum discarded: the greatest such set); for asymmetric neighbourhoods only the executable model is "
              "compared with the implementation",
              "the executable plateau / border-component specifications (quick-find closure) are used for the correspondence; "
              "close_holes is proved against directed reachability (close_holes_correct)",
              "hitmiss: the border-skipping slack loop is modelled in closed form; the shuffled early-exit order is irrelevant to the "
              "result and not modelled"]
BUDGET_S = {"quick": 100, "thorough": 1200}
DTYPES = ["uint8", "int8", "uint16", "int16", "uint32", "int32", "uint64", "int64", "float32", "float64", "bool"]


def cross(nd):
    b = np.zeros([3] * nd, int)
    c = tuple([1] * nd)
    b[c] = 1
    for d in range(nd):
        for s in (0, 2):
            idx = list(c)
            idx[d] = s
            b[tuple(idx)] = 1
    return b


def cases(ctx):
    rng = ctx.rng
    if ctx.tier == "thorough":
        tmpl13 = [list(t) for t in itertools.product([0, 1, 2], repeat=3)]
        for (h, w) in [(1, 1), (1, 3), (3, 1), (2, 2), (2, 3), (3, 3), (3, 4)]:
            for bits in range(2 ** (h * w)):
                v = [(bits >> k) & 1 for k in range(h * w)]
                for bc in ("cross", "box"):
                    yield {"kind": "close_holes", "shape": [h, w], "vals": v, "bc": bc, "layout": "C", "dtype": "bool"}
                for t in tmpl13:
                    yield {"kind": "hitmiss", "shape": [h, w], "vals": v, "tshape": [1, 3], "t": t, "layout": "C", "dtype": "bool"}
                    yield {"kind": "hitmiss", "shape": [h, w], "vals": v, "tshape": [3, 1], "t": t, "layout": "C", "dtype": "bool"}
                for _ in range(12):
                    yield {"kind": "hitmiss", "shape": [h, w], "vals": v, "tshape": [3, 3],
                           "t": [rng.choice([0, 1, 2, 2]) for _ in range(9)], "layout": "C", "dtype": "bool"}
    n = 900 if ctx.tier == "quick" else 12000
    for i in range(n):
        kind = rng.choice(["locmax", "locmin", "regmax", "regmin", "regmax", "regmin", "close_holes", "hitmiss", "hitmiss"])
        lay = rng.choice(LAYOUTS)
        if kind == "close_holes":
            shape = [rng.randint(1, 7), rng.randint(1, 7)]
            p = rng.choice([0.3, 0.5, 0.7])
            yield {"kind": kind, "shape": shape, "vals": [1 if rng.random() < p else 0 for _ in range(gen.size(shape))],
                   "bc": rng.choice(["cross", "box", "none", "arb", "arb", "arb"]), "layout": lay,
                   "dtype": rng.choice(["bool", "uint8", "int32", "float64"])}
        elif kind == "hitmiss":
            shape = [rng.randint(1, 7), rng.randint(1, 7)]
            tsh = rng.choice([[3, 3], [3, 3], [1, 3], [3, 1], [1, 1], [3, 5], [5, 3], [2, 2], [2, 3], [4, 1]])
            f = [rng.randint(0, 1) for _ in range(gen.size(shape))]
            t = [rng.choice([0, 1, 2, 2, 2]) for _ in range(gen.size(tsh))]
            if rng.random() < 0.5 and shape[0] >= tsh[0] and shape[1] >= tsh[1]:   # plant a match
                y, x = rng.randint(0, shape[0] - tsh[0]), rng.randint(0, shape[1] - tsh[1])
                for sy in range(tsh[0]):
                    for sx in range(tsh[1]):
                        if t[sy * tsh[1] + sx] != 2:
                            f[(y + sy) * shape[1] + x + sx] = t[sy * tsh[1] + sx]
            c = {"kind": kind, "shape": shape, "vals": f, "tshape": tsh, "t": t, "layout": lay,
                 "dtype": rng.choice(["bool", "uint8", "int32", "uint16", "int64"]), "tdtype": rng.choice(["uint8", "int64", "same"])}
            if rng.random() < 0.4:
                # call history: the same template was applied just before to an image of another width (and height) -- what
                # this call returns may not depend on it
                psh = [rng.randint(1, 8), rng.choice([w for w in range(1, 10) if w != shape[1]])]
                c["prev_shape"] = psh
                c["prev_vals"] = [rng.randint(0, 1) for _ in range(gen.size(psh))]
            yield c
        else:
            dtype = rng.choice(DTYPES)
            shape = gen.rand_shape(rng, big=(i % 10 == 0))
            N = gen.size(shape)
            if dtype == "bool":
                pal = [0, 1]
            elif dtype.startswith("uint"):
                pal = [rng.randint(0, 6) for _ in range(rng.choice([2, 3, 6]))]
            else:
                pal = [rng.randint(-5, 6) for _ in range(rng.choice([2, 3, 6]))]
            vals = []
            for _ in range(N):   # plateaus: repeat the previous value often
                vals.append(vals[-1] if vals and rng.random() < 0.4 else rng.choice(pal))
            nd = len(shape)
            k = rng.choice(["cross", "box", "none", "arb"])
            bc = k
            if k == "arb":
                sh = [rng.choice([1, 3, 3]) for _ in range(nd)]
                bc = {"shape": sh, "vals": [rng.randint(0, 1) for _ in range(gen.size(sh))]}
            c = {"kind": kind, "dtype": dtype, "shape": shape, "vals": vals, "bc": bc, "layout": lay}
            if dtype != "bool" and rng.random() < 0.3:
                # dtype-extreme values (order-isomorphic integer codes go to the model): lowest, lowest+, -tiny, 0, tiny, .., max
                c["extreme"] = True
                c["vals"] = [v % 7 for v in vals] if not dtype.startswith("uint") else [v % 5 for v in vals]
            yield c


def extreme_palette(dt):
    if dt.startswith("float"):
        fi = np.finfo(dt)
        return [-fi.max, -1.0, -fi.tiny, 0.0, fi.tiny, 1.0, fi.max]
    ii = np.iinfo(dt)
    if ii.min == 0:
        return [0, 1, 2, ii.max - 1, ii.max]
    return [ii.min, ii.min + 1, -1, 0, 1, ii.max - 1, ii.max]


def mk_img(case):
    dt = case["dtype"]
    fi = np.array(case["vals"], dtype=np.int64).reshape(case["shape"])
    if case.get("extreme"):
        pal = np.array(extreme_palette(dt), dtype=dt)
        return pal[fi], fi
    if dt == "bool":
        return fi.astype(bool), fi
    if dt.startswith("float"):
        return (fi * 0.25).astype(dt), fi
    return fi.astype(dt), fi


def run_case(ctx, case):
    mh = ctx.mh
    kind = case["kind"]
    a0, fi = mk_img(case)
    a = apply_layout(a0, case["layout"], fill=1)
    keep = a.copy()
    nd = a0.ndim
    if kind == "hitmiss":
        t0 = np.array(case["t"], dtype=np.int64).reshape(case["tshape"])
        td = case.get("tdtype", "uint8")
        t = t0.astype(a0.dtype if td == "same" and a0.dtype != bool else (np.uint8 if td != "int64" else np.int64))
        if case.get("prev_shape"):
            prev = np.array(case["prev_vals"], dtype=np.int64).reshape(case["prev_shape"]).astype(a0.dtype)
            mh.hitmiss(prev, t)
        got = mh.hitmiss(a, t)
        if not np.array_equal(a, keep):
            return Result(False, True, {"why": "input modified"})
        if got.shape != a0.shape:
            return Result(False, True, {"why": "shape"})
        # a caller-supplied output that held something else before: positions where the template does not fit must be written too
        try:
            buf = np.full(a0.shape, 1, dtype=got.dtype)
            got2 = mh.hitmiss(np.ascontiguousarray(a), t, out=buf)
            if got2 is not buf or not np.array_equal(buf, got):
                return Result(False, True, {"why": "hitmiss: the result in a supplied out buffer depends on what the buffer held before",
                                            "without_out": [int(v) for v in got.reshape(-1)], "with_out": [int(v) for v in buf.reshape(-1)]})
        except (ValueError, TypeError):
            pass
        gl = [int(v) for v in got.reshape(-1)]
        model, spec = ctx.model.ints("hitmiss %s %s" % (enc_arr(fi), enc_arr(t0)))
        odd = all(s % 2 == 1 for s in case["tshape"])
        if odd and gl != spec:
            return Result(False, True, {"why": "hitmiss != (template inside and all 0/1 entries coincide)", "spec": spec, "got": gl})
        if gl != model:
            return Result(False, True, {"why": "hitmiss != model", "model": model, "got": gl})
        return Result(True, len(set(case["vals"])) > 1, None, "hitmiss/%s/%s" % ("x".join(map(str, case["tshape"])), case["dtype"]))
    bcs = case["bc"]
    if bcs == "arb":
        # elements lacking some axis neighbours (left/right only, one-sided, diagonal only ...): the flood then cannot pass
        # everywhere, and "the image border" must remain the border of the image, not of the objects' bounding box
        import random as _r
        r2 = _r.Random(hash(tuple(case["vals"])) & 0xffffff)
        pat = r2.choice([[0, 0, 0, 1, 1, 1, 0, 0, 0], [0, 1, 0, 0, 1, 0, 0, 1, 0], [0, 0, 0, 0, 1, 1, 0, 0, 0], [0, 0, 0, 0, 1, 0, 0, 1, 0],
                         [1, 0, 1, 0, 1, 0, 1, 0, 1], [0, 0, 0, 1, 0, 1, 0, 0, 0]] + [[r2.randint(0, 1) for _ in range(9)] for _ in range(3)])
        bcs = {"shape": [3, 3], "vals": pat}
    if bcs in ("cross", "none"):
        bc0 = cross(nd)
    elif bcs == "box":
        bc0 = np.ones([3] * nd, int)
    else:
        bc0 = np.array(bcs["vals"]).reshape(bcs["shape"])
    bc_arg = None if bcs == "none" else bc0.astype(bool)
    symmetric = isinstance(bcs, str)
    if kind == "close_holes":
        got = mh.close_holes(a, bc_arg) if bc_arg is not None else mh.close_holes(a)
        if not np.array_equal(a, keep):
            return Result(False, True, {"why": "input modified"})
        if got.dtype != bool or got.shape != a0.shape:
            return Result(False, True, {"why": "dtype/shape"})
        gl = [int(v) for v in got.reshape(-1)]
        ref = (fi != 0).astype(np.int64)
        model, spec = ctx.model.ints("close_holes %s %s" % (enc_arr(ref), enc_arr(bc0)))
        # definition, evaluated independently: background reachable from a border background pixel by steps p -> p + offset of the
        # element (DIRECTED: for an element that is not symmetric this is what "through the neighbourhood" means in the code and
        # in the theorem close_holes_correct; the executable quick-find specification is its symmetric special case)
        H, W = ref.shape
        offs = [(y - bc0.shape[0] // 2, x - bc0.shape[1] // 2) for y in range(bc0.shape[0]) for x in range(bc0.shape[1])
                if bc0[y, x] and (y - bc0.shape[0] // 2, x - bc0.shape[1] // 2) != (0, 0)]
        seen = [[False] * W for _ in range(H)]
        st = [(y, x) for y in range(H) for x in range(W) if (y in (0, H - 1) or x in (0, W - 1)) and ref[y, x] == 0]
        for y, x in st:
            seen[y][x] = True
        while st:
            y, x = st.pop()
            for dy, dx in offs:
                ny, nx = y + dy, x + dx
                if 0 <= ny < H and 0 <= nx < W and ref[ny, nx] == 0 and not seen[ny][nx]:
                    seen[ny][nx] = True
                    st.append((ny, nx))
        defn = [0 if seen[y][x] else 1 for y in range(H) for x in range(W)]
        if gl != defn:
            return Result(False, True, {"why": "close_holes != complement of the background reachable from the border", "definition": defn, "got": gl})
        sym = bool(np.array_equal(bc0, bc0[::-1, ::-1]))
        if sym and gl != spec:
            return Result(False, True, {"why": "close_holes != complement of the border-connected background", "spec": spec, "got": gl})
        if gl != model:
            return Result(False, True, {"why": "close_holes != model", "model": model, "got": gl})
        return Result(True, len(set(case["vals"])) > 1, None, "close_holes/%s" % (bcs if isinstance(bcs, str) else "arbitrary"))
    is_min = kind.endswith("min")
    fn = getattr(mh, kind)
    bc_keep = None if bc_arg is None else bc_arg.copy()
    got = fn(a, bc_arg) if bc_arg is not None else fn(a)
    if not np.array_equal(a, keep) or (bc_arg is not None and not np.array_equal(bc_arg, bc_keep)):
        return Result(False, True, {"why": "input (image or Bc) modified"})
    if got.dtype != bool or got.shape != a0.shape:
        return Result(False, True, {"why": "dtype/shape"})
    gl = [int(v) for v in got.reshape(-1)]
    cmd = "locmm" if kind.startswith("loc") else "regmm"
    model, spec = ctx.model.ints("%s %d %s %s" % (cmd, 1 if is_min else 0, enc_arr(fi), enc_arr(bc0)))
    if (symmetric or cmd == "locmm") and gl != spec:
        return Result(False, True, {"why": "%s != definition" % kind, "spec": spec, "got": gl, "layout": case["layout"]})
    if gl != model:
        return Result(False, True, {"why": "%s != model" % kind, "model": model, "got": gl})
    if cmd == "regmm":
        loc = getattr(mh, "locmin" if is_min else "locmax")
        lg = loc(a, bc_arg) if bc_arg is not None else loc(a)
        if (got & ~lg).any():
            return Result(False, True, {"why": "regional extrema not a subset of local extrema"})
    return Result(True, len(set(case["vals"])) > 1, None, "%s/%dD/%s/%s" % (kind, nd, bcs if symmetric else "arb",
                                                                             "float" if case["dtype"].startswith("f") else "int"))


def shrink(ctx, case):
    if case.get("layout", "C") != "C":
        c = dict(case); c["layout"] = "C"; yield c
