"""C08: results depend only on the logical input: layout-independent, repeatable, pure."""
import random
from vlib.harness import Result, LAYOUTS
from vlib import registry as R
from vlib import isolate

ID = "C08"
RULE = ("API sweep: every function of the registry (tools/vlib/registry.py: %d public array-taking functions of mahotas, "
        "mahotas.labeled, .morph, .features, .segmentation, .polygon, .interpolate, .thresholding, .colors) x generated inputs in "
        "its documented domain x every array argument position x 9 memory layouts (C, Fortran, strided, negative stride, offset, "
        "transposed, read-only, cropped columns, every second row) the non-native byte order and a misaligned view (a field of a packed record) -- "
        "which a function may refuse with an exception but may not silently misread --: the result must equal the C-contiguous result (bit-identical for boolean/integer results, 1e-9 "
        "relative for real-valued results), the arguments must be bitwise unchanged, and the call repeated in fresh worker "
        "processes with MALLOC_PERTURB_ in {85,170,255} after pre-dirtying freed blocks must return the same value. All calls run "
        "in isolated workers. Non-trivial: the call returned a value (not an exception) for the C layout" % len(R.REG))
NOT_PROVED = ["this sweep is metamorphic exploration of the implementation (support); the Coq theorems of C08 cover the shared "
              "array layer (iterator order, at_flat, flat<->position maps), and every kernel theorem of C01-C07/C13-C19 is stated on "
              "logical arrays and therefore independent of layout and heap by construction",
              "functions outside the registry are not covered"]
BUDGET_S = {"quick": 240, "thorough": 1500}
PERTURBS = [85, 170, 255]


def arr_positions(args, kwargs):
    pos = [("a", i) for i, a in enumerate(args) if isinstance(a, dict) and "arr" in a]
    pos += [("k", k) for k, v in kwargs.items() if isinstance(v, dict) and "arr" in v]
    return pos


def build_requests(case):
    e = R.BYNAME[case["fn"]]
    rng = random.Random(case["seed"])
    args, kwargs = e.gen(rng)
    reqs = []
    base = {"id": "base", "fn": e.name, "args": args, "kwargs": kwargs, "layouts": ["C"] * len(args), "klayouts": {}}
    reqs.append(base)
    if case.get("base_only"):
        return e, reqs
    for kind, key in arr_positions(args, kwargs):
        if kind == "a" and key in e.nolayout:
            continue
        for lay in LAYOUTS[1:] + ["swapped", "unaligned"]:
            if kind == "a" and key in e.inplace_args and lay == "readonly":
                continue        # a canvas that is drawn on must be writable: rejecting a read-only one is correct
            lays = ["C"] * len(args)
            kl = {}
            if kind == "a":
                lays[key] = lay
            else:
                kl[key] = lay
            reqs.append({"id": "%s%s:%s" % (kind, key, lay), "fn": e.name, "args": args, "kwargs": kwargs, "layouts": lays, "klayouts": kl})
    return e, reqs


def setup(ctx):
    """pre-compute all outcomes in a few big isolated batches"""
    ctx.c08_cases = list(_gen_cases(ctx))
    allreq = []
    for ci, case in enumerate(ctx.c08_cases):
        e, reqs = build_requests(case)
        for r in reqs:
            rr = dict(r)
            rr["id"] = "%d|%s" % (ci, r["id"])
            allreq.append(rr)
    out = {}
    chunk = 400
    for s in range(0, len(allreq), chunk):
        res = isolate.run_batch(ctx.lib, allreq[s:s + chunk], perturb=None, timeout_per_call=30)
        for r, o in zip(allreq[s:s + chunk], res):
            out[(r["id"], None)] = o
    # heap history: only the base calls, in fresh workers with different perturbation bytes
    bases = [r for r in allreq if r["id"].endswith("|base")]
    for pb in PERTURBS:
        reqs = [dict(r, predirty=pb) for r in bases]
        if pb == PERTURBS[-1]:
            # the last repetition visits the calls in the opposite order: whatever an earlier call of the same process may have
            # left behind (a cache, a static buffer, a shared default object) is then left by other calls
            reqs.reverse()
        for s in range(0, len(reqs), chunk):
            res = isolate.run_batch(ctx.lib, reqs[s:s + chunk], perturb=pb, timeout_per_call=30)
            for r, o in zip(reqs[s:s + chunk], res):
                out[(r["id"], pb)] = o
    ctx.c08_out = out
    ctx.stats["isolated_calls"] = len(out)
    ctx.stats["functions"] = len(R.REG)


def _gen_cases(ctx):
    rng = random.Random(ctx.seed + 8)
    per = 4 if ctx.tier == "quick" else 16
    for e in R.REG:
        for k in range(per):
            yield {"fn": e.name, "seed": rng.randrange(1 << 30), "idx": None}
    # purity / heap-history sweep: many more argument draws per function, C layout only (an input that already has the dtype and
    # layout the function wants is the one a wrapper may forget to copy)
    for e in R.REG:
        for k in range(3 * per):
            yield {"fn": e.name, "seed": rng.randrange(1 << 30), "idx": None, "base_only": True}


def _scalar(v):
    return v is None or isinstance(v, (bool, int, float, str))


def aba_blocks(e, seed, tier):
    """Blocks  A(v1), A(v2), A(v1), A(v3), A(v1), ...  -- one call of the function with a scalar parameter (positional or keyword)
    at v1, then for every other value the generator produces for that parameter the call with only that parameter changed,
    followed by the first call again.  Every block runs in a process of its own, so its first call has no history.  A function
    of its arguments returns the same for A(v1) each time; a cache keyed by too few of the parameters, a cached object that a
    later call modifies, or any other state kept between calls shows as a difference."""
    draws = []
    for i in range(6 if tier == "quick" else 12):
        try:
            draws.append(e.gen(random.Random(seed + i)))
        except Exception:
            pass
    if not draws:
        return []
    args, kwargs = draws[0]
    pools = {}
    for a2, k2 in draws:
        for i, v in enumerate(a2):
            if _scalar(v) and i < len(args) and _scalar(args[i]):
                pools.setdefault(("a", i), [])
                if not any(v == w and type(v) is type(w) for w in pools[("a", i)]):
                    pools[("a", i)].append(v)
        for k, v in k2.items():
            if _scalar(v) and k in kwargs and _scalar(kwargs[k]):
                pools.setdefault(("k", k), [])
                if not any(v == w and type(v) is type(w) for w in pools[("k", k)]):
                    pools[("k", k)].append(v)
    lay = ["C"] * len(args)

    def call(kind, key, v, role):
        a2, k2 = list(args), dict(kwargs)
        if kind == "a":
            a2[key] = v
        else:
            k2[key] = v
        return {"fn": e.name, "args": a2, "kwargs": k2, "layouts": lay, "klayouts": {}, "role": role}
    blocks = []
    for (kind, key), vals in sorted(pools.items(), key=str):
        vals = vals[:4]
        if len(vals) < 2:
            continue
        for v1 in vals:
            blk = [call(kind, key, v1, "A %s%s=%r" % (kind, key, v1))]
            for v2 in vals:
                if v2 == v1 and type(v2) is type(v1):
                    continue
                blk.append(call(kind, key, v2, "B %s%s=%r" % (kind, key, v2)))
                blk.append(call(kind, key, v1, "A %s%s=%r" % (kind, key, v1)))
            for i, r in enumerate(blk):
                r["id"] = "aba%d" % i
            blocks.append(blk)
    return blocks


def run_aba(ctx, e, seed):
    from concurrent.futures import ThreadPoolExecutor
    blocks = aba_blocks(e, seed, ctx.tier)
    ncalls = sum(len(b) for b in blocks)
    if not blocks:
        return None, 0
    with ThreadPoolExecutor(max_workers=8) as ex:
        outs = list(ex.map(lambda blk: isolate.run_batch(ctx.lib, blk, perturb=None, timeout_per_call=30), blocks))
    for blk, res in zip(blocks, outs):
        first = res[0]
        if first is None or "crash" in first or "hang" in first or first.get("exc") is not None:
            continue
        for i in range(2, len(blk), 2):
            o = res[i]
            if o is None or "crash" in o or "hang" in o:
                return {"why": "%s crashed or hung when repeated after %s" % (e.name, blk[i - 1]["role"]), "outcome": o}, ncalls
            if o.get("exc") is not None or not R.canon_equal(o["res"], first["res"], float_tol=False):
                return {"why": "%s: the same call (%s) returns something else after a call that differs in one parameter (%s): the "
                               "result depends on the calls made before it" % (e.name, blk[0]["role"], blk[i - 1]["role"]),
                        "first": str(first["res"])[:300], "again": str(o.get("res", o.get("exc")))[:300]}, ncalls
    return None, ncalls


def cases(ctx):
    for ci, case in enumerate(ctx.c08_cases):
        c = dict(case)
        c["idx"] = ci
        yield c
    rng = random.Random(ctx.seed + 88)
    for e in R.REG:
        if e.inplace_args:
            continue
        for k in range(1 if ctx.tier == "quick" else 6):
            yield {"fn": e.name, "aba_seed": rng.randrange(1 << 30)}


def run_case(ctx, case):
    if "aba_seed" in case:
        e = R.BYNAME[case["fn"]]
        fail, n = run_aba(ctx, e, case["aba_seed"])
        ctx.stats["aba_calls"] = ctx.stats.get("aba_calls", 0) + n
        if fail:
            return Result(False, True, fail)
        return Result(True, n >= 3, None, e.name + "/aba")
    e, reqs = build_requests(case)
    ci = case.get("idx")
    out = getattr(ctx, "c08_out", None)
    if out is None or ci is None or ("%d|base" % ci, None) not in out or ctx.c08_cases[ci]["seed"] != case["seed"]:
        # replay of a single case: run it now
        res = isolate.run_batch(ctx.lib, reqs, perturb=None, timeout_per_call=30)
        local = {(r["id"], None): o for r, o in zip(reqs, res)}
        for pb in PERTURBS:
            o = isolate.run_batch(ctx.lib, [dict(reqs[0], predirty=pb)], perturb=pb, timeout_per_call=30)[0]
            local[("base", pb)] = o
        get = lambda rid, pb: local.get((rid, pb))
    else:
        get = lambda rid, pb: out.get(("%d|%s" % (ci, rid), pb))
    base = get("base", None)
    if base is None or "crash" in base or "hang" in base:
        return Result(False, True, {"why": "call crashed or hung in the C layout", "fn": e.name, "outcome": base})
    if base.get("exc") is not None:
        # the generator left the documented domain for this function: not informative, but layouts must then agree on the exception
        nontrivial = False
    else:
        nontrivial = True
        if not base.get("args_unchanged", True) and not e.inplace_args:
            return Result(False, True, {"why": "%s modified an argument" % e.name})
    for r in reqs[1:]:
        o = get(r["id"], None)
        if o is None or "crash" in o or "hang" in o:
            return Result(False, True, {"why": "%s crashed or hung with layout %s" % (e.name, r["id"]), "outcome": o})
        if r["id"].endswith((":swapped", ":unaligned")) and o.get("exc") is not None:
            continue        # the other byte order / a misaligned view may be refused with an exception; it may not change a result
        if (o.get("exc") is None) != (base.get("exc") is None):
            return Result(False, True, {"why": "%s: layout %s changes whether the call succeeds" % (e.name, r["id"]),
                                        "C": base.get("exc"), "other": o.get("exc"), "msg": o.get("msg") or base.get("msg")})
        if o.get("exc") is None:
            if not R.canon_equal(o["res"], base["res"], float_tol=e.float_out):
                return Result(False, True, {"why": "%s: result depends on the memory layout of argument %s" % (e.name, r["id"]),
                                            "C": str(base["res"])[:400], "other": str(o["res"])[:400]})
            if not o.get("args_unchanged", True) and not e.inplace_args:
                return Result(False, True, {"why": "%s modified an argument (layout %s)" % (e.name, r["id"])})
    if base.get("exc") is None:
        for pb in PERTURBS:
            o = get("base", pb)
            if o is None or "crash" in o or "hang" in o:
                return Result(False, True, {"why": "%s crashed or hung with MALLOC_PERTURB_=%d" % (e.name, pb), "outcome": o})
            if o.get("exc") is not None or not R.canon_equal(o["res"], base["res"], float_tol=False):
                return Result(False, True, {"why": "%s: result depends on previous heap contents or on the calls made before it in the same process (MALLOC_PERTURB_=%d%s)" % (e.name, pb, ", calls in reverse order" if pb == PERTURBS[-1] else ""),
                                            "first": str(base["res"])[:400], "again": str(o.get("res"))[:400]})
    return Result(True, nontrivial, None, e.name + ("" if nontrivial else "/exception"))
