"""C13: region measurements and label-map utilities = per-label definitions."""
import numpy as np
from vlib.harness import Result, enc_arr, enc_list, DT_CODES, apply_layout, LAYOUTS
from vlib import gen

ID = "C13"
MODES = ["nearest", "wrap", "reflect", "mirror", "constant", "ignore"]
M2I = {m: i for i, m in enumerate(MODES)}
RULE = ("random over (array, label-map) pairs of 1-3 D x 8 int + bool + 2 float dtypes (both signs; float values exact "
        "quarter-integers) x 6 label dtypes x 7 layouts x label sets with gaps and empty labels x cross/box/arbitrary "
        "neighbourhoods x 6 border modes; every output is compared with the extracted Coq model and judged by the extracted "
        "Coq specification (region folds, bbox_spec, borders_spec, same_labeling_spec, count_eq) or by the definition "
        "evaluated directly (remove_bordering, centre of mass as exact integer quotients). Non-trivial: >=2 distinct labels present Added: center_of_mass on int32/uint32/int64/uint16 images with a few heavy pixels (up to the dtype maximum) 150-300 columns from the origin; remove_bordering with rsize 0 and per-axis tuples.")
NOT_PROVED = ["center_of_mass (labeled.bbox is now proved: bbox_labeled_is_spec): the executable model is compared with the executable Coq "
              "specification on every generated case, not proved equal for all inputs (is_same_labeling, the generic N-D bbox scan "
              "and the 2-D skip-ahead fast path ARE proved: is_same_labeling_correct, bbox_generic_is_spec, bbox_fast2_is_spec)",
              "remove_bordering / filter_labeled (pure numpy glue) are checked against the definition directly",
              "center_of_mass: the final double divisions are outside the model (compared with the correctly rounded quotient)"]
BUDGET_S = {"quick": 100, "thorough": 900}
VAL_DT = ["uint8", "int8", "uint16", "int16", "uint32", "int32", "uint64", "int64", "float32", "float64", "bool"]
LAB_DT = ["int32", "int64", "uint8", "uint16", "intc", "int16"]
FLOAT_LOWEST = -(2 ** 1100)
FLOAT_HIGHEST = 2 ** 1100


def rand_labels(rng, n, nlab=None):
    nlab = nlab if nlab is not None else rng.choice([1, 2, 3, 5])
    pal = [0, 0] + [rng.randint(1, nlab + 2) for _ in range(nlab)]
    if rng.random() < 0.5:      # spatially coherent maps: runs of equal labels along the scan
        out = []
        for _ in range(n):
            out.append(out[-1] if out and rng.random() < 0.65 else rng.choice(pal))
        return out
    return [rng.choice(pal) for _ in range(n)]


def rand_bc(rng, nd):
    k = rng.choice(["cross", "box", "arb", "even", "none", "none"])
    if k == "none":
        return None
    if k == "cross":
        b = np.zeros([3] * nd, int)
        c = tuple([1] * nd)
        b[c] = 1
        for d in range(nd):
            for s in (0, 2):
                idx = list(c)
                idx[d] = s
                b[tuple(idx)] = 1
    elif k == "box":
        b = np.ones([3] * nd, int)
    elif k == "even":
        b = np.ones([rng.choice([2, 4]) for _ in range(nd)], int)
    else:
        sh = [rng.choice([1, 2, 3, 3]) for _ in range(nd)]
        b = np.array([rng.randint(0, 1) for _ in range(int(np.prod(sh)))]).reshape(sh)
    return {"shape": list(b.shape), "vals": [int(v) for v in b.reshape(-1)]}


def cases(ctx):
    rng = ctx.rng
    n = 900 if ctx.tier == "quick" else 10000
    for i in range(n):
        kind = rng.choice(["fold", "fold", "fold", "relabel", "same", "same", "remove", "borders", "borders", "border", "bbox", "bbox",
                           "lbbox", "hist", "com", "rmbord", "bwperim"])
        shape = gen.rand_shape(rng, big=(i % 13 == 0)) if kind not in ("rmbord",) else gen.rand_shape(rng, ndim=2)
        N = gen.size(shape)
        c = {"kind": kind, "shape": shape, "layout": rng.choice(LAYOUTS), "llayout": rng.choice(LAYOUTS),
             "ldtype": rng.choice(LAB_DT)}
        if kind == "fold":
            dt = rng.choice(VAL_DT)
            c["dtype"] = dt
            c["op"] = rng.choice(["sum", "max", "min", "size"])
            if dt == "bool":
                c["vals"] = [rng.randint(0, 1) for _ in range(N)]
            elif dt.startswith("float"):
                neg = rng.random() < 0.4
                c["vals"] = [rng.randint(-40, -1) if neg else rng.randint(-9, 12) for _ in range(N)]
            else:
                lo, hi = gen.INT_INFO[dt]
                neg = lo < 0 and rng.random() < 0.4
                c["vals"] = [rng.randint(max(lo, -40), -1) if neg else gen.rand_value(rng, dt, rng.choice(["dense", "small"]))
                             for _ in range(N)]
            c["labels"] = rand_labels(rng, N)
            c["minlength"] = rng.choice([None, None, 0, 3, 9]) if c["op"] == "sum" else None
        elif kind in ("relabel", "remove", "lbbox", "rmbord"):
            c["labels"] = rand_labels(rng, N)
            if kind == "lbbox" and rng.random() < 0.15:
                # the largest label the dtype can hold: the row count max+1 must not wrap around
                c["ldtype"] = "uint8"
                c["labels"][rng.randrange(N)] = 255
            if kind == "remove":
                c["regions"] = [rng.randint(0, 7) for _ in range(rng.randint(0, 4))]
            if kind == "rmbord":
                # an int or one width per axis; width 0 = touching that pair of faces is allowed
                c["rsize"] = rng.choice([1, 1, 2, 0, [0, 1], [1, 0], [2, 1], [0, 0], [1, 3]])
        elif kind == "same":
            a = rand_labels(rng, N)
            r = rng.random()
            if r < 0.45:
                labs = sorted(set(a) - {0})
                sh = labs[:]
                rng.shuffle(sh)
                perm = dict(zip(labs, [s + rng.choice([0, 10]) for s in sh]))
                if len(set(perm.values())) != len(perm):
                    perm = dict(zip(labs, sh))
                perm[0] = 0
                b = [perm[v] for v in a]
                if rng.random() < 0.5 and N > 1:   # small perturbation: erase / merge / split one pixel
                    nz = [t for t in range(N) if a[t] != 0]
                    j = rng.choice(nz) if nz and rng.random() < 0.7 else rng.randrange(N)
                    b[j] = rng.choice([0, 0, b[rng.randrange(N)], 99])
            else:
                b = rand_labels(rng, N)
            c["a"], c["b"] = a, b
        elif kind in ("borders", "border", "bwperim"):
            c["labels"] = rand_labels(rng, N, nlab=rng.choice([1, 2, 3])) if kind != "bwperim" else [rng.randint(0, 1) for _ in range(N)]
            c["mode"] = rng.choice(MODES)
            c["bc"] = rand_bc(rng, len(shape))
            if kind == "border":
                c["i"], c["j"] = rng.randint(0, 3), rng.randint(0, 3)
            if kind == "bwperim":
                c["shape"] = shape = gen.rand_shape(rng, ndim=2)
                c["labels"] = [rng.randint(0, 1) for _ in range(gen.size(shape))]
                c["n"] = rng.choice([4, 8])
        elif kind == "bbox":
            dt = rng.choice(["bool", "uint8", "int32", "float64", "int8", "uint16"])
            c["dtype"] = dt
            p = rng.choice([0.0, 0.1, 0.3, 0.7])
            c["vals"] = [(rng.choice([1, 1, 2, -1]) if dt in ("int32", "float64", "int8") else 1) if rng.random() < p else 0
                         for _ in range(N)]
        elif kind == "hist":
            dt = rng.choice(["uint8", "uint16", "uint32", "bool", "uint64"])
            c["dtype"] = dt
            top = rng.choice([1, 3, 9, 200])
            c["vals"] = [rng.randint(0, 1 if dt == "bool" else top) for _ in range(N)]
        elif kind == "com":
            dt = rng.choice(["uint8", "int32", "float64", "float32", "uint16", "bool"])
            c["dtype"] = dt
            c["vals"] = [rng.randint(0, 1) if dt == "bool" else rng.randint(0, 9) for _ in range(N)]
            c["labels"] = rand_labels(rng, N) if rng.random() < 0.6 else None
            if rng.random() < 0.25:
                # heavy pixels far from the origin: value x coordinate exceeds 2**31 / 2**32 while every sum is exact in double
                dt = rng.choice(["int32", "uint32", "int64", "uint16"])
                shape = [rng.randint(1, 3), rng.randint(150, 300)]
                N = gen.size(shape)
                top = {"int32": 2 ** 31 - 1, "uint32": 2 ** 32 - 1, "int64": 2 ** 40, "uint16": 65535}[dt]
                vals = [0] * N
                for _ in range(rng.randint(1, 6)):
                    vals[rng.randrange(N)] = rng.choice([top, top // 2, top // 70, 30000000 if top > 30000000 else top])
                c.update({"dtype": dt, "shape": shape, "vals": vals, "labels": rand_labels(rng, N) if rng.random() < 0.5 else None})
        yield c


def mkvals(case):
    dt = case["dtype"]
    sc = 0.25 if dt.startswith("float") else 1
    vi = np.array(case["vals"], dtype=object).reshape(case["shape"])
    if dt == "bool":
        a = np.array(case["vals"], dtype=bool).reshape(case["shape"])
    elif dt.startswith("float"):
        a = (np.array(case["vals"], dtype=np.int64).reshape(case["shape"]) * sc).astype(dt)
    else:
        a = np.array(case["vals"], dtype=np.dtype(dt)).reshape(case["shape"])
    return a, sc


def mklab(case, key="labels"):
    return np.array(case[key], dtype=np.dtype(case["ldtype"])).reshape(case["shape"])


def run_case(ctx, case):
    mh = ctx.mh
    from mahotas import labeled as L
    kind = case["kind"]
    nd = len(case["shape"])
    if kind == "fold":
        a0, sc = mkvals(case)
        l0 = mklab(case)
        a = apply_layout(a0, case["layout"], fill=1)
        lab = apply_layout(l0, case["llayout"], fill=1)
        ka, kl = a.copy(), lab.copy()
        dt, op = case["dtype"], case["op"]
        vals, labels = case["vals"], case["labels"]
        m = max(labels) + 1
        if op == "size":
            got = L.labeled_size(lab)
            want = ctx.model.ints("hist %s" % enc_list(labels))[0]
            gl = [int(v) for v in got]
            ok = gl == want and all(gl[k] == sum(1 for x in labels if x == k) for k in range(m))
            return Result(ok, len(set(labels)) > 1, None if ok else {"why": "labeled_size != pixel counts", "want": want, "got": gl},
                          "fold/size")
        if op == "sum":
            ml = case.get("minlength")
            got = mh.labeled_sum(a, lab, minlength=ml) if ml is not None else mh.labeled_sum(a, lab)
            mm = max(m, ml or 0)
            if dt == "bool":
                want = [1 if any(v for v, l in zip(vals, labels) if l == k) else 0 for k in range(mm)]
            else:
                tcode = "none" if dt.startswith("float") else DT_CODES[dt]
                want = ctx.model.ints("lsum %s %d %s %s" % (tcode, mm, enc_list(vals), enc_list(labels)))[0]
                exact = [sum(v for v, l in zip(vals, labels) if l == k) for k in range(mm)]
                if not dt.startswith("float"):
                    lo, hi = gen.INT_INFO[dt]
                    bitsn = hi - lo + 1
                    exact = [((e - lo) % bitsn) + lo for e in exact]   # sum in T wraps (unsigned) -- the definition modulo 2^bits
                if want != exact:
                    return Result(False, True, {"why": "model != definition", "model": want, "exact": exact})
        elif op in ("max", "min"):
            got = L.labeled_max(a, lab) if op == "max" else L.labeled_min(a, lab)
            if dt == "bool":
                lo, hi = 0, 1
            elif dt.startswith("float"):
                lo, hi = FLOAT_LOWEST, FLOAT_HIGHEST
            else:
                lo, hi = gen.INT_INFO[dt]
            start = lo if op == "max" else hi
            want = ctx.model.ints("%s %d %d %s %s" % ("lmax" if op == "max" else "lmin", start, m, enc_list(vals), enc_list(labels)))[0]
            mm = m
        if not (np.array_equal(a, ka) and np.array_equal(lab, kl)):
            return Result(False, True, {"why": "input modified"})
        if got.dtype != a0.dtype or got.shape != (mm,):
            return Result(False, True, {"why": "dtype/shape", "got": [str(got.dtype), list(got.shape)]})
        for k in range(mm):
            reg = [v for v, l in zip(vals, labels) if l == k]
            g = got[k]
            if op in ("max", "min") and not reg:
                continue      # empty label: identity element, not constrained by the property
            gv = float(g) / sc if dt.startswith("float") else int(g)
            if op == "max" and gv != max(reg) or op == "min" and gv != min(reg):
                return Result(False, True, {"why": "labeled_%s[%d] is not the %s of the region" % (op, k, op), "region": reg, "got": gv})
            if gv != want[k]:
                return Result(False, True, {"why": "labeled_%s[%d] != model" % (op, k), "want": want[k], "got": gv, "region": reg})
        return Result(True, len(set(labels)) > 1, None, "fold/%s/%s" % (op, "float" if dt.startswith("float") else
                                                                       ("bool" if dt == "bool" else ("signed" if dt[0] == "i" else "unsigned"))))
    if kind == "relabel":
        l0 = mklab(case)
        lab = apply_layout(l0, case["llayout"], fill=1)
        kl = lab.copy()
        got, n = L.relabel(lab)
        if not np.array_equal(lab, kl):
            return Result(False, True, {"why": "input modified (inplace=False)"})
        out, cnt = ctx.model.ints("relabel %s" % enc_list(case["labels"]))
        gl = [int(v) for v in got.reshape(-1)]
        if gl != out or int(n) != cnt[0] or got.shape != l0.shape:
            return Result(False, True, {"why": "relabel != model", "want": out, "got": gl, "n": int(n), "want_n": cnt[0]})
        # definition: first-appearance numbering
        seen = {0: 0}
        for v in case["labels"]:
            if v not in seen:
                seen[v] = len(seen)
        if gl != [seen[v] for v in case["labels"]] or int(n) != len(seen) - 1:
            return Result(False, True, {"why": "relabel is not first-appearance numbering"})
        return Result(True, len(seen) > 2, None, "relabel")
    if kind == "same":
        a = apply_layout(np.array(case["a"], dtype=np.dtype(case["ldtype"])).reshape(case["shape"]), case["layout"], fill=1)
        b = apply_layout(np.array(case["b"], dtype=np.int64).reshape(case["shape"]), case["llayout"], fill=1)
        got = bool(L.is_same_labeling(a, b))
        model, spec = ctx.model.ints("same_labeling %s %s" % (enc_list(case["a"]), enc_list(case["b"])))[0]
        if model != spec:
            return Result(False, True, {"why": "model != spec (bijection fixing 0)"})
        if got != bool(spec):
            return Result(False, True, {"why": "is_same_labeling != (related by a bijection fixing 0)", "spec": spec, "got": got})
        return Result(True, len(set(case["a"])) > 1, None, "same/%s" % bool(spec))
    if kind == "remove":
        l0 = mklab(case)
        lab = apply_layout(l0, case["llayout"], fill=1)
        kl = lab.copy()
        got = L.remove_regions(lab, case["regions"])
        if not np.array_equal(lab, kl):
            return Result(False, True, {"why": "input modified (inplace=False)"})
        want = ctx.model.ints("remove_regions %s %s" % (enc_list(case["labels"]), enc_list(sorted(set(case["regions"])))))[0]
        gl = [int(v) for v in got.reshape(-1)]
        defn = [0 if v in case["regions"] else v for v in case["labels"]]
        ok = gl == want == defn and got.shape == l0.shape
        return Result(ok, True, None if ok else {"why": "remove_regions", "want": defn, "got": gl}, "remove_regions")
    if kind in ("borders", "border", "bwperim"):
        l0 = mklab(case) if kind != "bwperim" else np.array(case["labels"], dtype=bool).reshape(case["shape"])
        lab = apply_layout(l0, case["llayout"], fill=1)
        kl = lab.copy()
        bcs = case.get("bc")
        if kind == "bwperim":
            n = case["n"]
            bc0 = np.ones((3, 3), int) if n == 8 else np.array([[0, 1, 0], [1, 1, 1], [0, 1, 0]])
            got = mh.bwperim(lab, n, mode=case["mode"])
        else:
            if bcs is None:
                bc0 = np.zeros([3] * nd, int)
                c = tuple([1] * nd)
                bc0[c] = 1
                for d in range(nd):
                    for s in (0, 2):
                        idx = list(c)
                        idx[d] = s
                        bc0[tuple(idx)] = 1
                bc = None
            else:
                bc0 = np.array(bcs["vals"]).reshape(bcs["shape"])
                bc = bc0.astype(bool)
            if kind == "borders":
                got = L.borders(lab, bc, mode=case["mode"])
            else:
                got = L.border(lab, case["i"], case["j"], bc)
        if not np.array_equal(lab, kl):
            return Result(False, True, {"why": "input modified"})
        if got.dtype != bool or got.shape != l0.shape:
            return Result(False, True, {"why": "dtype/shape"})
        gl = [int(v) for v in got.reshape(-1)]
        li = l0.astype(np.int64)
        if kind == "border":
            want = ctx.model.ints("border %s %s %d %d" % (enc_arr(li), enc_arr(bc0), case["i"], case["j"]))[0]
            spec = want
        else:
            want, spec = ctx.model.ints("borders %d %s %s" % (M2I[case["mode"]], enc_arr(li), enc_arr(bc0)))
            if kind == "bwperim":
                want = [w & int(v) for w, v in zip(want, li.reshape(-1))]
                spec = [w & int(v) for w, v in zip(spec, li.reshape(-1))]
        if gl != spec:
            return Result(False, True, {"why": "%s != definition (differently-labelled neighbour)" % kind, "spec": spec, "got": gl})
        if gl != want:
            return Result(False, True, {"why": "%s != model" % kind, "want": want, "got": gl})
        return Result(True, len(set(case["labels"])) > 1, None, "%s/%s/%dD" % (kind, case["mode"], nd))
    if kind == "bbox":
        a0, sc = mkvals(case)
        a = apply_layout(a0, case["layout"], fill=1)
        ka = a.copy()
        got = mh.bbox(a)
        gen_, fast, spec = ctx.model.ints("bbox %s" % enc_arr(np.array(case["vals"], dtype=np.int64).reshape(case["shape"])))
        gl = [int(v) for v in got]
        if not np.array_equal(a, ka):
            return Result(False, True, {"why": "input modified"})
        if gen_ != spec or fast != spec:
            return Result(False, True, {"why": "bbox model != bbox_spec", "generic": gen_, "fast": fast, "spec": spec})
        if gl != spec:
            return Result(False, True, {"why": "bbox != tight bounding box", "spec": spec, "got": gl})
        crop = mh.croptobbox(a)
        sl = tuple(slice(spec[2 * j], spec[2 * j + 1]) for j in range(nd))
        if not np.array_equal(crop, a0[sl]):
            return Result(False, True, {"why": "croptobbox != image cropped to the tight box"})
        path = "fast2d" if (nd == 2 and a.flags.c_contiguous and a.flags.aligned) else "generic"
        return Result(True, any(case["vals"]), None, "bbox/%s/%s" % (path, case["dtype"]))
    if kind == "lbbox":
        l0 = mklab(case)
        lab = apply_layout(l0, case["llayout"], fill=1)
        got = L.bbox(lab)
        n = max(case["labels"])
        spec = ctx.model.ints("bbox_labeled %s %d" % (enc_arr(l0.astype(np.int64)), n))
        gl = [[int(v) for v in row] for row in got]
        if got.shape != (n + 1, 2 * nd) or gl != spec:
            return Result(False, True, {"why": "labeled.bbox != per-label tight boxes", "spec": spec, "got": gl})
        model = ctx.model.ints("bbox_labeled_model %s %d" % (enc_arr(l0.astype(np.int64)), n))
        if gl != model:
            return Result(False, True, {"why": "labeled.bbox != model of the one-pass scan", "model": model, "got": gl})
        return Result(True, n > 0, None, "lbbox/%dD" % nd)
    if kind == "hist":
        a0, _ = mkvals(case)
        a = apply_layout(a0, case["layout"], fill=1)
        got = mh.fullhistogram(a)
        want = ctx.model.ints("hist %s" % enc_list(case["vals"]))[0]
        gl = [int(v) for v in got]
        defn = [sum(1 for v in case["vals"] if v == k) for k in range(max(case["vals"]) + 1)]
        if case["dtype"] == "bool":
            defn = (defn + [0, 0])[:2]
            want = (want + [0, 0])[:2]
        ok = gl == want == defn
        return Result(ok, True, None if ok else {"why": "fullhistogram != value counts", "want": defn, "got": gl}, "hist")
    if kind == "com":
        a0, sc = mkvals(case)
        a = apply_layout(a0, case["layout"], fill=1)
        ka = a.copy()
        fi = np.array(case["vals"], dtype=np.int64).reshape(case["shape"])
        if case["labels"] is None:
            got = mh.center_of_mass(a)
            labs, nl = [0] * fi.size, 1
            got = np.asarray(got).reshape(1, nd)
        else:
            l0 = mklab(case)
            lab = apply_layout(l0, case["llayout"], fill=1)
            got = mh.center_of_mass(a, lab)
            labs, nl = case["labels"], max(case["labels"]) + 1
        if not np.array_equal(a, ka):
            return Result(False, True, {"why": "input modified"})
        if got.shape != (nl, nd):
            return Result(False, True, {"why": "shape", "got": list(got.shape)})
        for l in range(nl):
            tot, sums = ctx.model.ints("com %s %s %d" % (enc_arr(fi), enc_list(labs), l))
            tot = tot[0]
            if tot == 0:
                continue   # empty / weightless region: 0/0
            for j in range(nd):
                want = (sums[j] * sc) / (tot * sc)
                if float(got[l, j]) != want:
                    return Result(False, True, {"why": "center_of_mass[%d][%d] != weighted mean coordinate" % (l, j),
                                                "want": want, "got": float(got[l, j])})
        return Result(True, len(set(case["vals"])) > 1, None, "com/%s" % ("labels" if case["labels"] is not None else "whole"))
    if kind == "rmbord":
        l0 = mklab(case)
        lab = apply_layout(l0, case["llayout"], fill=1)
        kl = lab.copy()
        rs = case["rsize"] if isinstance(case["rsize"], int) else tuple(case["rsize"])
        got = L.remove_bordering(lab, rsize=rs)
        if not np.array_equal(lab, kl):
            return Result(False, True, {"why": "input modified"})
        H, W = case["shape"]
        ry, rx = (rs, rs) if isinstance(rs, int) else rs
        bad = set()
        for y in range(H):
            for x in range(W):
                if (y < ry or y >= H - ry or x < rx or x >= W - rx) and l0[y, x] != 0:
                    bad.add(int(l0[y, x]))
        defn = np.where(np.isin(l0, list(bad)), 0, l0)
        ok = np.array_equal(got, defn) and got.dtype == l0.dtype
        return Result(bool(ok), True, None if ok else {"why": "remove_bordering != zero exactly the regions touching the border"},
                      "remove_bordering")
    raise ValueError(kind)


def shrink(ctx, case):
    for key in ("layout", "llayout"):
        if case.get(key, "C") != "C":
            c = dict(case); c[key] = "C"; yield c
