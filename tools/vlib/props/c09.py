"""C09: out= convention: the result lands in the supplied buffer or the call is rejected."""
import numpy as np
from vlib.harness import Result
from vlib import gen

ID = "C09"
RULE = ("every public function with an out/output parameter (erode, dilate, open, close, cerode, cdilate, locmax, locmin, regmax, "
        "regmin, majority_filter, hitmiss, subm, tophat_open, tophat_close, convolve, convolve1d, median_filter, rank_filter, "
        "mean_filter, template_match, gaussian_filter1d, gaussian_filter, label, border, borders, remove_bordering, "
        "spline_filter1d, spline_filter, shift, zoom) x generated inputs of 1-3 D x {valid buffer pre-filled with a sentinel, wrong "
        "dtype, wrong shape, non-contiguous view, Fortran order, `output=` spelling}: with a valid buffer the call must return that "
        "very object holding exactly what the call returns without out; an invalid buffer must be rejected with ValueError or "
        "TypeError and left bitwise untouched; without out the result has the documented dtype and the input's shape. "
        "Non-trivial: result not constant Every valid-out case is run twice into buffers pre-filled with different values (the contents after the call may not depend on what the buffer held); image contents include all-zero, constant and zero-border images; sides 2..6.")
NOT_PROVED = ["per-wrapper buffer flow is checked on the implementation; the Coq theorems cover the shared helper _get_output "
              "(re-translated from internal.py) and the Gaussian ping-pong"]
BUDGET_S = {"quick": 100, "thorough": 900}
MODES = ["nearest", "wrap", "reflect", "mirror", "constant"]


def cross(nd):
    b = np.zeros([3] * nd, bool)
    c = tuple([1] * nd)
    b[c] = True
    for d in range(nd):
        for s in (0, 2):
            idx = list(c)
            idx[d] = s
            b[tuple(idx)] = True
    return b


def specs():
    """name -> (callable builder, output dtype rule, dims allowed)"""
    import mahotas as mh
    from mahotas import morph, labeled, interpolate
    S = {}

    def add(name, fn, mk, odt, nds=(1, 2, 3), kw="out"):
        S[name] = {"fn": fn, "mk": mk, "odt": odt, "nds": nds, "kw": kw}
    same = lambda a: a.dtype
    intimg = lambda rng, sh: np.array([rng.randint(0, 9) for _ in range(gen.size(sh))], dtype=rng.choice(["uint8", "int32", "uint16"])).reshape(sh)
    boolimg = lambda rng, sh: np.array([rng.randint(0, 1) for _ in range(gen.size(sh))], dtype=bool).reshape(sh)
    fltimg = lambda rng, sh: np.array([rng.randint(-9, 9) for _ in range(gen.size(sh))], dtype=np.float64).reshape(sh)
    anyimg = lambda rng, sh: rng.choice([intimg, boolimg])(rng, sh)
    for nm in ("erode", "dilate", "open", "close"):
        add(nm, getattr(mh, nm), lambda rng, sh: ((anyimg(rng, sh),), {}), same)
    add("cerode", mh.cerode, lambda rng, sh: ((lambda a: (a, (a + 1).astype(a.dtype)))(intimg(rng, sh)), {}), same)
    add("cdilate", mh.cdilate, lambda rng, sh: ((lambda a: (a, (a + 1).astype(a.dtype)))(intimg(rng, sh)), {"n": 2}), same)
    for nm in ("locmax", "locmin", "regmax", "regmin"):
        add(nm, getattr(mh, nm), lambda rng, sh: ((intimg(rng, sh),), {}), lambda a: np.dtype(bool))
    add("majority_filter", mh.majority_filter, lambda rng, sh: ((boolimg(rng, sh),), {"N": 3}), lambda a: np.dtype(bool), nds=(2,))
    add("hitmiss", mh.hitmiss, lambda rng, sh: ((boolimg(rng, sh).astype(np.uint8), np.array([[2, 1, 2], [0, 1, 1], [2, 2, 2]], np.uint8)), {}),
        same, nds=(2,))
    add("subm", morph.subm, lambda rng, sh: ((intimg(rng, sh).astype(np.uint8), intimg(rng, sh).astype(np.uint8)), {}), same)
    add("tophat_open", morph.tophat_open, lambda rng, sh: ((intimg(rng, sh),), {}), same)
    add("tophat_close", morph.tophat_close, lambda rng, sh: ((intimg(rng, sh),), {}), same)
    add("convolve", mh.convolve, lambda rng, sh: ((fltimg(rng, sh), np.ones([2] * len(sh))), {"mode": rng.choice(MODES)}), same)
    add("convolve1d", mh.convolve1d, lambda rng, sh: ((fltimg(rng, sh), np.array([1., 2., 1.]), rng.randrange(len(sh))), {"mode": rng.choice(MODES)}), same)
    add("median_filter", mh.median_filter, lambda rng, sh: ((intimg(rng, sh),), {}), same)
    add("rank_filter", mh.rank_filter, lambda rng, sh: ((lambda a: (a, np.ones([3] * len(sh), a.dtype), 2))(intimg(rng, sh)), {}), same)
    add("mean_filter", mh.mean_filter, lambda rng, sh: ((lambda a: (a, np.ones([3] * len(sh), a.dtype)))(intimg(rng, sh)), {}), lambda a: np.dtype(np.float64))
    add("template_match", mh.template_match, lambda rng, sh: ((lambda a: (a, np.ones([2] * len(sh), a.dtype)))(intimg(rng, sh).astype(np.int32)), {}), same)
    add("gaussian_filter1d", mh.gaussian_filter1d, lambda rng, sh: ((fltimg(rng, sh), 1.0), {"axis": rng.randrange(len(sh)), "order": rng.choice([0, 1])}), same)
    add("gaussian_filter", mh.gaussian_filter, lambda rng, sh: ((fltimg(rng, sh), 1.0), {"order": rng.choice([0, 1])}), same)
    add("label", lambda *a, **k: mh.label(*a, **k)[0], lambda rng, sh: ((anyimg(rng, sh),), {}), lambda a: np.dtype(np.int32))
    add("borders", labeled.borders, lambda rng, sh: ((intimg(rng, sh).astype(np.int32),), {}), lambda a: np.dtype(bool))
    add("border", lambda *a, **k: labeled.border(*a, **k), lambda rng, sh: ((intimg(rng, sh).astype(np.int32) % 3, 1, 2), {}), lambda a: np.dtype(bool))
    add("remove_bordering", labeled.remove_bordering, lambda rng, sh: ((intimg(rng, sh).astype(np.int32),), {}), same, nds=(2,))
    add("spline_filter1d", interpolate.spline_filter1d, lambda rng, sh: ((fltimg(rng, sh),), {"order": 3, "axis": 0}), lambda a: np.dtype(np.float64))
    add("spline_filter", interpolate.spline_filter, lambda rng, sh: ((fltimg(rng, sh),), {"order": 3}), lambda a: np.dtype(np.float64))
    add("shift", interpolate.shift, lambda rng, sh: ((fltimg(rng, sh), [1] * len(sh)), {"order": 1}), lambda a: np.dtype(np.float64))
    add("zoom", interpolate.zoom, lambda rng, sh: ((fltimg(rng, sh), 1.0), {"order": 1}), lambda a: np.dtype(np.float64))
    return S


NAMES = ["erode", "dilate", "open", "close", "cerode", "locmax", "locmin", "regmax", "regmin", "majority_filter", "hitmiss",
         "subm", "tophat_open", "tophat_close", "convolve", "convolve1d", "median_filter", "rank_filter", "mean_filter", "template_match",
         "gaussian_filter1d", "gaussian_filter", "label", "borders", "border", "remove_bordering", "spline_filter1d", "spline_filter",
         "shift", "zoom"]
NDS = {"majority_filter": (2,), "hitmiss": (2,), "remove_bordering": (2,)}
VARIANTS = ["valid", "valid", "dtype", "shape", "strided", "fortran", "output_kw", "swapped"]


def cases(ctx):
    rng = ctx.rng
    reps = 4 if ctx.tier == "quick" else 16
    for _ in range(reps):
        for name in NAMES:
            for v in VARIANTS:
                nd = rng.choice(NDS.get(name, (1, 2, 2, 3)))
                shape = [rng.choice([2, 3, 3, 3, 4, 5, 6]) for _ in range(nd)]    # sides at and below the window sizes (3) are frequent
                # content for which the function may have "nothing to do" (no region on the border, nothing to erode, constant
                # signal): the complete result must still be written into out
                yield {"fn": name, "variant": v, "shape": shape, "seed": rng.randrange(1 << 30),
                       "content": rng.choice(["random", "random", "zeros", "const", "interior"])}
        # subm documents the in-place form ("Pass a as output to subtract in-place"): out aliases the first argument
        for dt in ("uint8", "uint16", "int8", "int32", "uint64"):
            yield {"fn": "subm", "variant": "inplace", "shape": [rng.choice([1, 3, 5]) for _ in range(rng.choice([1, 2]))],
                   "seed": rng.randrange(1 << 30), "content": "random", "dtype": dt}
        # hitmiss documents its out as "Boolean ndarray of same size as input", whatever the (integer) type of the input
        shape = [rng.choice([3, 4, 5, 6]) for _ in range(2)]
        yield {"fn": "hitmiss", "variant": "boolout", "shape": shape, "seed": rng.randrange(1 << 30), "content": "random"}


def run_case(ctx, case):
    import random
    import warnings
    S = getattr(ctx, "c09_specs", None)
    if S is None:
        S = ctx.c09_specs = specs()
    sp = S[case["fn"]]
    rng = random.Random(case["seed"])
    args, kw = sp["mk"](rng, case["shape"])
    a = args[0]
    content = case.get("content", "random")
    if content == "zeros":
        a[...] = 0
    elif content == "const":
        a[...] = a.reshape(-1)[0]
    elif content == "interior":
        for d in range(a.ndim):
            idx = [slice(None)] * a.ndim
            idx[d] = 0
            a[tuple(idx)] = 0
            idx[d] = -1
            a[tuple(idx)] = 0
    odt = np.dtype(sp["odt"](a))
    with warnings.catch_warnings():
        warnings.simplefilter("ignore")
        ref = sp["fn"](*[x.copy() if isinstance(x, np.ndarray) else x for x in args], **kw)
    ref = np.asarray(ref)
    if case["fn"] != "zoom" and (ref.shape != a.shape or ref.dtype != odt):
        return Result(False, True, {"why": "%s without out: dtype/shape is not the documented one" % case["fn"],
                                    "got": [str(ref.dtype), list(ref.shape)], "want": [str(odt), list(a.shape)]})
    v = case["variant"]
    sentinel = 1 if odt == bool else 77
    oshape = ref.shape
    if v in ("valid", "output_kw"):
        buf = np.full(oshape, sentinel, dtype=odt)
    elif v == "inplace":
        dt = np.dtype(case["dtype"])
        info = np.iinfo(dt)
        r2 = random.Random(case["seed"] + 1)
        pool = [info.min, info.max, 0, 1, info.max - 1] + [r2.randint(max(info.min, -50), min(info.max, 300)) for _ in range(6)]
        x = np.array([r2.choice(pool) for _ in range(int(np.prod(oshape)))], dtype=dt).reshape(oshape)
        y = np.array([r2.choice(pool) for _ in range(int(np.prod(oshape)))], dtype=dt).reshape(oshape)
        want = np.clip(x.astype(object) - y.astype(object), info.min, info.max)
        ykeep = y.copy()
        r = sp["fn"](x, y, out=x)
        if r is not x:
            return Result(False, True, {"why": "subm(a, b, out=a) did not return a"})
        if not np.array_equal(x.astype(object), want) or not np.array_equal(y, ykeep):
            return Result(False, True, {"why": "subm(a, b, out=a) (the documented in-place form) != clamped a - b", "dtype": str(dt),
                                        "got": [int(v) for v in x.reshape(-1)], "want": [int(v) for v in want.reshape(-1)]})
        return Result(True, True, None, "subm/inplace/%s" % dt)
    elif v == "boolout":
        buf = np.full(oshape, True, dtype=bool)
        r = sp["fn"](*[x.copy() if isinstance(x, np.ndarray) else x for x in args], out=buf, **kw)
        if r is not buf:
            return Result(False, True, {"why": "hitmiss did not return the supplied (Boolean, as documented) out buffer",
                                        "returned_dtype": str(np.asarray(r).dtype), "is_view_of_out": bool(getattr(r, "base", None) is buf)})
        if not np.array_equal(buf, ref.astype(bool)):
            return Result(False, True, {"why": "hitmiss: Boolean out buffer does not hold the result of the call without out"})
        return Result(True, len(np.unique(ref)) > 1, None, "hitmiss/boolout")
    elif v == "dtype":
        wrong = np.dtype(np.float32) if odt != np.float32 else np.dtype(np.int16)
        if odt.kind == "f":
            wrong = np.dtype(np.int32)
        buf = np.full(oshape, sentinel, dtype=wrong)
    elif v == "swapped":          # same kind and size, other byte order: not the documented dtype
        if odt.itemsize == 1:
            return Result(True, False, None, "skip-1byte-swapped")
        buf = np.full(oshape, sentinel, dtype=odt.newbyteorder())
    elif v == "shape":
        buf = np.full([s + 1 for s in oshape], sentinel, dtype=odt)
    elif v == "strided":
        big = np.full([2 * s for s in oshape], sentinel, dtype=odt)
        buf = big[tuple(slice(None, None, 2) for _ in oshape)]
    else:
        if len(oshape) < 2:
            return Result(True, False, None, "skip-1d-fortran")
        buf = np.asfortranarray(np.full(oshape, sentinel, dtype=odt))
    keep = buf.copy()
    import inspect
    import mahotas as mh
    target = mh.label if case["fn"] == "label" else sp["fn"]
    try:
        params = inspect.signature(target).parameters
    except (TypeError, ValueError):
        params = {}
    kwname = "output" if (v == "output_kw" and "output" in params) else "out"
    if v == "output_kw" and kwname == "out":
        return Result(True, False, None, "skip-no-output-kw")
    if case["fn"] == "zoom" and v in ("dtype", "shape", "swapped"):
        # by design zoom takes its target shape from `out` and converts to out's dtype
        return Result(True, False, None, "skip-zoom-out-defines-target")
    call_kw = dict(kw)
    call_kw[kwname] = buf
    try:
        with warnings.catch_warnings():
            warnings.simplefilter("ignore")
            if case["fn"] == "label":
                import mahotas as mh
                r = mh.label(*args, **call_kw)[0]
            else:
                r = sp["fn"](*[x.copy() if isinstance(x, np.ndarray) else x for x in args], **call_kw)
        exc = None
    except (ValueError, TypeError) as e:
        exc = e
    except Exception as e:      # RuntimeError etc.
        if v in ("valid", "output_kw"):
            return Result(False, True, {"why": "%s rejected a valid out buffer" % case["fn"], "exception": repr(e)[:300]})
        return Result(False, True, {"why": "%s: invalid out (%s) rejected with %s instead of ValueError/TypeError" % (case["fn"], v, type(e).__name__),
                                    "exception": repr(e)[:300]})
    if v in ("valid", "output_kw"):
        if exc is not None:
            return Result(False, True, {"why": "%s rejected a valid out buffer (%s=)" % (case["fn"], kwname), "exception": repr(exc)[:300]})
        if r is not buf:
            return Result(False, True, {"why": "%s did not return the supplied out buffer" % case["fn"], "kw": kwname})
        if not np.array_equal(buf, ref):
            return Result(False, True, {"why": "%s: out buffer does not hold the result of the call without out" % case["fn"]})
        # "writes the complete result into out": a second call into a buffer pre-filled with a different value must give the same
        # contents (stale cells would differ; this does not depend on what the call without out happened to find in fresh memory)
        buf2 = np.full(oshape, 0 if odt == bool else 13, dtype=odt)
        call_kw2 = dict(kw)
        call_kw2[kwname] = buf2
        with warnings.catch_warnings():
            warnings.simplefilter("ignore")
            if case["fn"] == "label":
                mh.label(*args, **call_kw2)
            else:
                sp["fn"](*[x.copy() if isinstance(x, np.ndarray) else x for x in args], **call_kw2)
        if not np.array_equal(buf, buf2):
            return Result(False, True, {"why": "%s: the contents of out after the call depend on what out held before (not completely "
                                               "written)" % case["fn"]})
        return Result(True, len(np.unique(ref)) > 1, None, "%s/valid" % case["fn"])
    if exc is None:
        # a buffer that does not match the documented dtype/shape/contiguity was accepted
        return Result(False, True, {"why": "%s accepted an out buffer with wrong %s" % (case["fn"], v)})
    if not np.array_equal(buf, keep):
        return Result(False, True, {"why": "%s modified a rejected out buffer (%s)" % (case["fn"], v)})
    return Result(True, True, None, "%s/%s" % (case["fn"], v))
