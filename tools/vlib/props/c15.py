"""C15: thinning preserves topology; Euler number and convex hull are correct."""
import itertools
import numpy as np
from vlib.harness import Result, enc_arr, apply_layout, LAYOUTS
from vlib import gen

ID = "C15"
RULE = ("random 2-D binary images (1x1 .. 24x24, densities 0.1-0.9, objects touching every edge, empty and full) x dtypes x 7 "
        "layouts: thin = extracted Coq model, subset of the input, same number of 8-components (counted with label()), idempotent; "
        "euler = extracted Coq quad model = components - holes computed independently (8/4 and 4/8 pairing); convexhull = model, "
        "points are foreground, strictly convex turn sequence, every foreground pixel inside or on the polygon (exact integer "
        "orientation tests); fill_convexhull superset of the input. thorough: all binary images <=3x5. Non-trivial: >=2 foreground pixels")
NOT_PROVED = ["global preservation of the number of 8-components by the parallel deletions of thin (checked exhaustively on all "
              "images <=3x5 and on random images, not a theorem)",
              "Euler-Poincare (V-E+F = components - holes) is classical and not proved here; the quad sum is compared with an "
              "independent component/hole count on every case",
              "hull: containment is a theorem per monotone chain (every point lies, in its slab, right of or on the chain edge: HullContain.v); that graham() assembles the two chains into one polygon is checked on every case with exact orientation tests"]
BUDGET_S = {"quick": 100, "thorough": 1500}


def cases(ctx):
    rng = ctx.rng
    if ctx.tier == "thorough":
        for (h, w) in [(1, 1), (1, 2), (2, 2), (1, 3), (2, 3), (3, 3), (1, 5), (2, 5), (3, 4), (3, 5)]:
            for bits in range(2 ** (h * w)):
                yield {"shape": [h, w], "vals": [(bits >> k) & 1 for k in range(h * w)], "layout": "C", "dtype": "bool", "all": True}
    n = 350 if ctx.tier == "quick" else 5000
    for i in range(n):
        big = i % 6 == 0
        h, w = (rng.randint(1, 24), rng.randint(1, 24)) if big else (rng.randint(1, 7), rng.randint(1, 7))
        p = rng.choice([0.1, 0.3, 0.5, 0.7, 0.9, 1.0, 0.0])
        vals = [1 if rng.random() < p else 0 for _ in range(h * w)]
        yield {"shape": [h, w], "vals": vals, "layout": rng.choice(LAYOUTS), "dtype": rng.choice(["bool", "bool", "uint8", "int32", "int8", "uint16", "float32", "int64"]),
               "all": False}
    # solid blocks with a few one-pixel holes: the pockets between the loops that form around the holes erode one or two pixels
    # per pass, so these need more passes than either side is long (any cap on the number of passes shows here)
    for i in range(80 if ctx.tier == "quick" else 800):
        h, w = rng.randint(5, 14), rng.randint(8, 22)
        img = np.ones((h, w), int)
        for _ in range(rng.randint(2, 9)):
            img[rng.randrange(h), rng.randrange(w)] = 0
        if rng.random() < 0.4:
            img = np.pad(img, rng.randint(1, 3))
        yield {"shape": list(img.shape), "vals": [int(v) for v in img.reshape(-1)], "layout": "C", "dtype": "bool", "all": False}
    # ... such images are rare among random ones (about 1 in 600): the slowest found by tools/find_slow_thinning.py (passes needed
    # up to 1.5 x the shorter side) are replayed with a random symmetry and padding
    import json, os
    slow = json.load(open(os.path.join(os.path.dirname(os.path.abspath(__file__)), "..", "..", "data", "slow_thinning.json")))
    for k, (npass, side, rows) in enumerate(slow if ctx.tier == "thorough" else slow[:24]):
        img = np.array(rows, int)
        t = rng.randrange(8)
        if t & 1:
            img = img[::-1]
        if t & 2:
            img = img[:, ::-1]
        if t & 4:
            img = img.T
        img = np.pad(img, rng.randint(0, 2))
        yield {"shape": list(img.shape), "vals": [int(v) for v in img.reshape(-1)], "layout": rng.choice(LAYOUTS),
               "dtype": "bool", "all": False}


def components_holes(img, fg8):
    """independent count by flood fill: components of the foreground (8 or 4) and holes = background components (4 or 8) not touching the border"""
    H, W = img.shape

    def comps(mask, eight, pad):
        m = np.pad(mask, 1, constant_values=pad) if pad is not None else mask
        h, w = m.shape
        seen = np.zeros_like(m, bool)
        nb = [(-1, 0), (1, 0), (0, -1), (0, 1)] + ([(-1, -1), (-1, 1), (1, -1), (1, 1)] if eight else [])
        n = 0
        for y in range(h):
            for x in range(w):
                if m[y, x] and not seen[y, x]:
                    n += 1
                    st = [(y, x)]
                    seen[y, x] = True
                    while st:
                        cy, cx = st.pop()
                        for dy, dx in nb:
                            ny, nx = cy + dy, cx + dx
                            if 0 <= ny < h and 0 <= nx < w and m[ny, nx] and not seen[ny, nx]:
                                seen[ny, nx] = True
                                st.append((ny, nx))
        return n
    c = comps(img, fg8, None)
    bgc = comps(~img, not fg8, True) - 1        # background padded with a frame of background: one outer component
    return c, bgc


def is_left(p0, p1, p2):
    return (p1[0] - p0[0]) * (p2[1] - p0[1]) - (p2[0] - p0[0]) * (p1[1] - p0[1])


def run_case(ctx, case):
    mh = ctx.mh
    from mahotas import polygon
    H, W = case["shape"]
    b0 = np.array(case["vals"], dtype=bool).reshape(H, W)
    a0 = b0.astype(case["dtype"]) if case["dtype"] != "bool" else b0
    a = apply_layout(a0, case["layout"], fill=1)
    keep = a.copy()
    enc = enc_arr(b0.astype(np.int64))
    # ---- thin
    t = mh.thin(a)
    if not np.array_equal(a, keep):
        return Result(False, True, {"why": "thin modified its input"})
    tb = np.asarray(t).astype(bool)
    if tb.shape != b0.shape:
        return Result(False, True, {"why": "thin shape"})
    want = ctx.model.ints("thin %s" % enc)[0]
    if [int(v) for v in tb.reshape(-1)] != want:
        return Result(False, True, {"why": "thin != model", "model": want, "got": tb.astype(int).reshape(-1).tolist()})
    if (tb & ~b0).any():
        return Result(False, True, {"why": "thin result is not a subset of the input"})
    box = np.ones((3, 3), bool)
    if mh.label(b0, box)[1] != mh.label(tb, box)[1]:
        return Result(False, True, {"why": "thin changed the number of 8-connected components",
                                    "before": int(mh.label(b0, box)[1]), "after": int(mh.label(tb, box)[1])})
    t2 = np.asarray(mh.thin(tb)).astype(bool)
    if not np.array_equal(t2, tb):
        return Result(False, True, {"why": "thin is not idempotent"})
    # ---- euler
    for n in (8, 4):
        e = mh.euler(a, n)
        m4 = ctx.model.ints("euler %d %s" % (1 if n == 8 else 0, enc))[0][0]
        c, holes = components_holes(b0, n == 8)
        if 4 * float(e) != m4:
            return Result(False, True, {"why": "euler(n=%d) != quad-count model" % n, "got": float(e), "model_x4": m4})
        if float(e) != c - holes:
            return Result(False, True, {"why": "euler(n=%d) != components - holes" % n, "got": float(e), "components": c, "holes": holes})
    # ---- convex hull
    if a.dtype == bool or True:
        hull = polygon.convexhull(a)
        hl = [[int(y), int(x)] for y, x in np.asarray(hull).reshape(-1, 2)]
        mo = ctx.model.ints("convexhull %s" % enc)[0]
        ml = [[mo[2 * i], mo[2 * i + 1]] for i in range(len(mo) // 2)]
        if hl != ml:
            return Result(False, True, {"why": "convexhull != model", "model": ml, "got": hl})
        pts = [(int(y), int(x)) for y, x in zip(*np.nonzero(b0))]
        if any(tuple(p) not in set(pts) for p in hl):
            return Result(False, True, {"why": "hull vertex is not a foreground pixel"})
        if len(pts) > 3 and len(hl) >= 3:
            k = len(hl)
            turns = [is_left(hl[i], hl[(i + 1) % k], hl[(i + 2) % k]) for i in range(k)]
            if not (all(tv < 0 for tv in turns) or all(tv > 0 for tv in turns)):
                return Result(False, True, {"why": "hull vertices are not in strictly convex position", "hull": hl, "turns": turns})
            s = -1 if turns[0] < 0 else 1
            for p in pts:
                if any(s * is_left(hl[i], hl[(i + 1) % k], p) < 0 for i in range(k)):
                    return Result(False, True, {"why": "a foreground pixel lies outside the hull polygon", "pixel": list(p), "hull": hl})
        fc = polygon.fill_convexhull(apply_layout(b0, case["layout"], fill=1))
        if (b0 & ~np.asarray(fc).astype(bool)).any():
            return Result(False, True, {"why": "fill_convexhull is not a superset of the input"})
        # "input image (interpreted as boolean)": the same mask for every dtype of the input, in the input's dtype
        dt = case.get("dtype", "bool")
        if dt != "bool":
            ai = (b0.astype(np.dtype(dt)) * (3 if dt != "bool" else 1))
            try:
                fi = polygon.fill_convexhull(ai)
            except Exception as e:
                return Result(False, True, {"why": "fill_convexhull raised on a %s image" % dt, "exception": repr(e)[:200]})
            if np.asarray(fi).shape != b0.shape or not np.array_equal(np.asarray(fi) != 0, np.asarray(fc).astype(bool)):
                return Result(False, True, {"why": "fill_convexhull of a %s image is not the mask obtained for the same image as booleans" % dt,
                                            "got": (np.asarray(fi) != 0).astype(int).tolist(), "want": np.asarray(fc).astype(int).tolist()})
    return Result(True, int(b0.sum()) >= 2, None, "%s/%s" % ("small" if H * W <= 49 else "big", "exhaustive" if case.get("all") else "random"))


def shrink(ctx, case):
    if case.get("layout", "C") != "C":
        c = dict(case); c["layout"] = "C"; yield c
    for i, v in enumerate(case["vals"]):
        if v:
            c = dict(case); c["vals"] = list(case["vals"]); c["vals"][i] = 0; yield c
