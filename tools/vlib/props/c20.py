"""C20: colour conversions follow sRGB/CIE definitions; stretch is a monotone range map."""
import itertools
import numpy as np
from vlib.harness import Result, apply_layout, LAYOUTS
from vlib import gen

ID = "C20"
RULE = ("colour functions: the theorems are about element functions re-translated from colors.py on every run; the implementation "
        "is judged on the 52-step RGB lattice per channel (quick: random sub-lattice + knee neighbourhood 10..11 in steps of 1/64 + "
        "boundary values) x dtypes x layouts against an independent evaluation of the sRGB/CIE definitions (rel. 1e-9), and by "
        "exact order predicates (white->Y=1, black->0, non-decreasing per channel, round trip, Lab white/greys). stretch/"
        "stretch_rgb: random images x dtypes x (min,max,dtype) requests with exact order predicates on the outputs (inside the "
        "range, minimum->lower bound, non-decreasing, dtype, input unchanged) and equality with the Q model for integer outputs. "
        "Non-trivial: more than one distinct input value")
NOT_PROVED = ["floating-point evaluation of the colour formulas (numpy pow) is outside the R model: compared with tolerance only",
              "Lab a*=b*=0 for greys holds only approximately with the 4-digit matrices (|a*|,|b*| < 0.03 checked numerically); "
              "the Coq theorem covers white",
              "stretch: the Q model predicts integer outputs exactly; floating outputs are judged by order predicates"]
BUDGET_S = {"quick": 90, "thorough": 900}
# The independent checker re-checks every file of this development that C20 depends on, but loads coq-interval and
# everything it imports (Flocq, Coquelicot, MathComp ssreflect, Coq.Reals) without re-checking them: a full re-check of those
# installed libraries takes more than 25 CPU minutes (tools/coqchk_full.sh C20 does it, as a soak target).
COQCHK_ADMIT = ["Interval.Tactic"]

M_RGB2XYZ = np.array([[0.4124, 0.3576, 0.1805], [0.2126, 0.7152, 0.0722], [0.0193, 0.1192, 0.9505]])


def srgb_to_linear(c):
    c = np.asarray(c, float) / 255.
    return np.where(c <= 0.04045, c / 12.92, ((c + 0.055) / 1.055) ** 2.4)


def ref_rgb2xyz(rgb):
    lin = srgb_to_linear(rgb)
    return lin @ M_RGB2XYZ.T


def ref_lab(xyz):
    def f(t):
        return np.where(t <= (6. / 29) ** 3, (1 / 3.) * (29. / 6) ** 2 * t + 4 / 29., np.cbrt(t))
    x, y, z = xyz[..., 0] / 0.95047, xyz[..., 1] / 1., xyz[..., 2] / 1.08883
    fx, fy, fz = f(x), f(y), f(z)
    return np.stack([116 * fy - 16, 500 * (fx - fy), 200 * (fy - fz)], -1)


def cases(ctx):
    rng = ctx.rng
    lattice = list(range(0, 256, 5))
    if ctx.tier == "thorough":
        for r in lattice:
            yield {"kind": "lattice", "r": r}
    else:
        for r in rng.sample(lattice, 6):
            yield {"kind": "lattice", "r": r}
    yield {"kind": "knee"}
    yield {"kind": "anchors"}
    yield {"kind": "mono"}
    # the documented `dtype` argument of the conversions, every function x requested type on every run
    for fn in ("rgb2xyz", "roundtrip", "rgb2grey"):
        for odt in ("float32", "float64", "uint8", "int32", "uint16"):
            sh = [rng.randint(1, 3), rng.randint(1, 4), 3]
            yield {"kind": "conv", "shape": sh, "dtype": rng.choice(["uint8", "float64"]), "layout": rng.choice(LAYOUTS), "fn": fn,
                   "vals": [rng.choice([0, 1, 10, 128, 254, 255, rng.randint(0, 255)]) for _ in range(gen.size(sh))], "odtype": odt}
    n = 250 if ctx.tier == "quick" else 3000
    for i in range(n):
        kind = rng.choice(["stretch", "stretch", "stretch_rgb", "conv"])
        if kind == "conv":
            sh = [rng.randint(1, 4), rng.randint(1, 4), 3]
            dt = rng.choice(["uint8", "float64", "float32", "int32"])
            vals = [rng.choice([0, 1, 10, 11, 128, 254, 255, rng.randint(0, 255)]) for _ in range(gen.size(sh))]
            if rng.random() < 0.25:
                # near-black images: on the documented 0..255 scale the levels 0 and 1 are just very dark, whatever the dtype
                vals = [rng.choice([0, 1, 1]) for _ in vals]
                if not any(vals):
                    vals[0] = 1
            c = {"kind": "conv", "shape": sh, "dtype": dt, "vals": vals, "layout": rng.choice(LAYOUTS),
                 "fn": rng.choice(["rgb2xyz", "rgb2lab", "rgb2grey", "rgb2sepia", "roundtrip"])}
            if c["fn"] in ("rgb2xyz", "roundtrip", "rgb2grey") and rng.random() < 0.4:
                # the documented `dtype` argument ("what dtype to return"): the same values, delivered in that type
                c["odtype"] = rng.choice(["float32", "float64", "uint8", "int32", "uint16"])
            yield c
        else:
            dt = rng.choice(gen.INT_DTYPES[1:] + ["float32", "float64", "bool"])
            shape = gen.rand_shape(rng) if kind == "stretch" else [rng.randint(1, 4), rng.randint(1, 4), 3]
            N = gen.size(shape)
            if dt == "bool":
                vals = [rng.randint(0, 1) for _ in range(N)]
            elif dt.startswith("float"):
                vals = [rng.randint(-400, 4000) for _ in range(N)]          # quarter-integers
            else:
                lo, hi = gen.INT_INFO[dt]
                span = rng.choice([3, 200, hi - lo])
                base = rng.randint(lo, hi - span)
                vals = [rng.randint(base, base + span) for _ in range(N)]
            req = rng.choice([[], [rng.choice([1, 7, 255, 1000])], [rng.choice([0, 3, 58]), None]])
            if len(req) == 2:
                req[1] = req[0] + rng.choice([1, 10, 179, 255])
            odt = rng.choice(["uint8", "uint8", "uint16", "int32", "float32", "float64", "int16"])
            yield {"kind": kind, "dtype": dt, "shape": shape, "vals": vals, "req": req, "odtype": odt, "layout": rng.choice(LAYOUTS)}


def close(a, b, rel=1e-9, abs_=1e-9):
    return np.allclose(a, b, rtol=rel, atol=abs_)


def run_case(ctx, case):
    mh = ctx.mh
    from mahotas import colors
    kind = case["kind"]
    if kind == "lattice":
        r = case["r"]
        gs, bs = np.meshgrid(np.arange(0, 256, 5), np.arange(0, 256, 5), indexing="ij")
        rgb = np.stack([np.full_like(gs, r), gs, bs], -1).astype(np.float64)
        xyz = colors.rgb2xyz(rgb)
        if not close(xyz, ref_rgb2xyz(rgb)):
            k = np.argmax(np.abs(xyz - ref_rgb2xyz(rgb)).max(-1))
            return Result(False, True, {"why": "rgb2xyz != sRGB transfer function + matrix", "rgb": rgb.reshape(-1, 3)[k].tolist(),
                                        "got": xyz.reshape(-1, 3)[k].tolist(), "want": ref_rgb2xyz(rgb).reshape(-1, 3)[k].tolist()})
        # non-decreasing in g and b along the lattice (exact order predicate)
        if (np.diff(xyz, axis=0) < 0).any() or (np.diff(xyz, axis=1) < 0).any():
            return Result(False, True, {"why": "rgb2xyz not non-decreasing per channel"})
        back = colors.xyz2rgb(xyz)
        if not np.allclose(back, rgb, atol=0.1):   # the published 4-digit matrices are inverse only to ~2e-4
            return Result(False, True, {"why": "xyz2rgb(rgb2xyz(rgb)) != rgb", "maxdiff": float(np.abs(back - rgb).max())})
        lab = colors.rgb2lab(rgb)
        if not close(lab, ref_lab(ref_rgb2xyz(rgb)), 1e-9, 1e-7):
            return Result(False, True, {"why": "rgb2lab != CIE L*a*b* definition"})
        return Result(True, True, None, "lattice")
    if kind == "knee":
        v = np.arange(10 * 64, 11 * 64 + 1) / 64.0
        rgb = np.stack([v, v, v], -1)[None]
        xyz = colors.rgb2xyz(rgb)
        ok = close(xyz, ref_rgb2xyz(rgb)) and not (np.diff(xyz[0], axis=0) < 0).any()
        return Result(bool(ok), True, None if ok else {"why": "rgb2xyz wrong / decreasing around the transfer-function knee"}, "knee")
    if kind == "anchors":
        w = colors.rgb2xyz(np.array([[[255, 255, 255]]], np.uint8))[0, 0]
        k = colors.rgb2xyz(np.array([[[0, 0, 0]]], np.uint8))[0, 0]
        if abs(w[1] - 1.0) > 1e-12 or abs(w[0] - 0.9505) > 1e-9 or abs(w[2] - 1.089) > 1e-9:
            return Result(False, True, {"why": "white does not map to the D65 white point with Y = 1", "got": w.tolist()})
        if (k != 0).any():
            return Result(False, True, {"why": "black does not map to 0", "got": k.tolist()})
        lw = colors.rgb2lab(np.array([[[255, 255, 255]]], np.uint8))[0, 0]
        if abs(lw[0] - 100) > 1e-9 or abs(lw[1]) > 0.03 or abs(lw[2]) > 0.03:
            return Result(False, True, {"why": "rgb2lab(white) != (100, ~0, ~0)", "got": lw.tolist()})
        g = np.arange(256, dtype=np.uint8)
        lg = colors.rgb2lab(np.stack([g, g, g], -1)[None])[0]
        if np.abs(lg[:, 1:]).max() > 0.03 or (np.diff(lg[:, 0]) < 0).any():
            return Result(False, True, {"why": "rgb2lab of greys: a*, b* not ~0 or L* not monotone", "max_ab": float(np.abs(lg[:, 1:]).max())})
        gr = colors.rgb2grey(np.stack([g, g, g], -1)[None])[0]
        if not close(gr, g.astype(float)):
            return Result(False, True, {"why": "rgb2grey of a grey is not that grey (weights must sum to 1)"})
        return Result(True, True, None, "anchors")
    if kind == "mono":
        v = np.arange(256, dtype=np.float64)
        for ch in range(3):
            rgb = np.full((1, 256, 3), 77.0)
            rgb[0, :, ch] = v
            xyz = colors.rgb2xyz(rgb)[0]
            if (np.diff(xyz, axis=0) < 0).any():
                return Result(False, True, {"why": "rgb2xyz not non-decreasing in channel %d" % ch})
        return Result(True, True, None, "mono")
    if kind == "conv":
        a0 = np.array(case["vals"], dtype=np.dtype(case["dtype"])).reshape(case["shape"])
        a = apply_layout(a0, case["layout"], fill=1)
        keep = a.copy()
        fn = case["fn"]
        rgbf = a0.astype(np.float64)
        if fn == "rgb2xyz":
            got, want = colors.rgb2xyz(a), ref_rgb2xyz(rgbf)
        elif fn == "rgb2lab":
            got, want = colors.rgb2lab(a), ref_lab(ref_rgb2xyz(rgbf))
        elif fn == "rgb2grey":
            got, want = colors.rgb2grey(a), rgbf @ np.array([0.30, 0.59, 0.11])
        elif fn == "rgb2sepia":
            W = np.array([[.393, .769, .189], [.349, .686, .168], [.272, .534, .131]])
            got = colors.rgb2sepia(a)
            want = np.clip((rgbf @ W.T).astype(np.float32), 0, 255).astype(np.uint8)
            if got.dtype != np.uint8:
                return Result(False, True, {"why": "sepia dtype"})
        else:
            got, want = colors.xyz2rgb(colors.rgb2xyz(a)), rgbf
        if case.get("odtype"):
            odt = np.dtype(case["odtype"])
            plain = got
            if fn == "rgb2xyz":
                got = colors.rgb2xyz(a, dtype=odt)
            elif fn == "rgb2grey":
                got = colors.rgb2grey(a, dtype=odt)
            else:
                got = colors.xyz2rgb(colors.rgb2xyz(a), dtype=odt)
            if got.dtype != odt or got.shape != plain.shape:
                return Result(False, True, {"why": "%s(dtype=%s) returned dtype %s" % (fn, odt, got.dtype)})
            # the values of the call without dtype, in the requested type: exact conversion for floats, within one unit for
            # integers (truncation and rounding are both accepted)
            d = np.abs(got.astype(np.float64) - plain.astype(np.float64))
            lim = 1.0 if odt.kind in "ui" else (1e-4 * max(1.0, float(np.abs(plain).max())) if odt == np.float32 else 1e-12)
            if float(d.max()) > lim + (0.1 if fn == "roundtrip" else 0):
                return Result(False, True, {"why": "%s(dtype=%s) differs from the call without dtype by %g" % (fn, odt, float(d.max()))})
            got = plain
        if not np.array_equal(a, keep):
            return Result(False, True, {"why": "input modified"})
        tol = 0.1 if fn == "roundtrip" else (1e-4 if case["dtype"] == "float32" else 1e-7)   # float32 inputs are processed in float32
        rtol = 1e-5 if case["dtype"] == "float32" else 1e-9
        if got.shape != want.shape or not np.allclose(got, want, rtol=rtol, atol=tol if fn != "rgb2sepia" else 1.0):
            return Result(False, True, {"why": "%s != definition (layout %s, dtype %s)" % (fn, case["layout"], case["dtype"]),
                                        "maxdiff": float(np.abs(np.asarray(got, float) - want).max()) if got.shape == want.shape else "shape"})
        return Result(True, len(set(case["vals"])) > 1, None, "conv/" + fn)
    # stretch / stretch_rgb
    dt = case["dtype"]
    if dt == "bool":
        a0 = np.array(case["vals"], dtype=bool).reshape(case["shape"])
        vi = [int(v) * 4 for v in case["vals"]]
    elif dt.startswith("float"):
        a0 = (np.array(case["vals"], dtype=np.int64) * 0.25).astype(dt).reshape(case["shape"])
        vi = list(case["vals"])
    else:
        a0 = np.array(case["vals"], dtype=np.dtype(dt)).reshape(case["shape"])
        vi = [int(v) * 4 for v in case["vals"]]
    a = apply_layout(a0, case["layout"], fill=1)
    keep = a.copy()
    req = case["req"]
    odt = np.dtype(case["odtype"])
    fn = mh.stretch if kind == "stretch" else mh.stretch_rgb
    got = fn(a, *req, dtype=odt)
    if not np.array_equal(a, keep):
        return Result(False, True, {"why": "input modified"})
    lo, hi = (0, 255) if not req else ((0, req[0]) if len(req) == 1 else (req[0], req[1]))
    if got.dtype != odt or got.shape != a0.shape:
        return Result(False, True, {"why": "dtype/shape", "got": [str(got.dtype), list(got.shape)]})
    info = np.iinfo(odt) if odt.kind in "iu" else None
    if info is not None and not (info.min <= lo and hi <= info.max):
        return Result(True, False, None, "stretch/skipped-range-not-representable")
    chans = [(..., c) for c in range(3)] if kind == "stretch_rgb" else [(...,)]
    for ch in chans:
        g = got[ch].reshape(-1)
        x = a0[ch].reshape(-1).astype(np.float64)
        # exact order predicates
        if g.min() < lo or g.max() > hi:
            return Result(False, True, {"why": "stretch result outside the requested range", "range": [lo, hi],
                                        "got_min": float(g.min()), "got_max": float(g.max()), "odtype": str(odt)})
        order = np.argsort(x, kind="stable")
        if (np.diff(g[order].astype(np.float64)) < 0).any():
            return Result(False, True, {"why": "stretch not non-decreasing in the input"})
        if g[np.argmin(x)] != lo:
            return Result(False, True, {"why": "minimum pixel not mapped to the lower bound", "got": float(g[np.argmin(x)]), "lo": lo})
        if x.max() > x.min() and odt.kind in "iu":
            # Q model: trunc((v - vmin) * (hi - lo) / ptp + lo), evaluated exactly
            from fractions import Fraction
            vmin, ptp = Fraction(x.min()), Fraction(x.max()) - Fraction(x.min())
            for v, gi in zip(x, g):
                exact = (Fraction(v) - vmin) * Fraction(hi - lo) / ptp + lo
                if int(gi) not in (int(exact), int(exact) - 1, int(exact) + 1) :
                    return Result(False, True, {"why": "stretch != linear rescale", "v": float(v), "got": int(gi), "exact": float(exact)})
    return Result(True, len(set(case["vals"])) > 1, None, "%s/%s->%s" % (kind, "float" if dt.startswith("f") else "int", odt.kind))


def shrink(ctx, case):
    if case.get("layout", "C") != "C":
        c = dict(case); c["layout"] = "C"; yield c
