"""Isolated worker: executes registry calls against the build in $VERIF_LIB.
stdin: JSON lines {"id", "fn", "args", "kwargs", "layouts": [per positional arg], "klayouts": {kw: layout}, "predirty": n}
stdout: JSON lines {"id", "res": canon | None, "exc": name | None, "args_unchanged": bool}
A crash of this process (signal, ASan abort) is observed by the parent through the exit status and
the last id acknowledged on stdout ("BEGIN id" lines are flushed before each call)."""
import json
import os
import sys

sys.path.insert(0, os.environ["VERIF_LIB"])
sys.path.insert(1, os.path.join(os.path.dirname(os.path.abspath(__file__)), ".."))
import numpy as np  # noqa: E402
import warnings  # noqa: E402
warnings.simplefilter("ignore")
import mahotas as mh  # noqa: E402
from vlib import registry as R  # noqa: E402

assert os.path.abspath(mh.__file__).startswith(os.path.abspath(os.environ["VERIF_LIB"])), mh.__file__


def dirty_heap(nbytes, pattern):
    # allocate and free blocks of the output's size filled with a byte pattern
    blocks = [np.full(max(1, nbytes), pattern, np.uint8) for _ in range(6)]
    for k in (1, 2, 4, 8):
        blocks.append(np.full(max(1, nbytes * k), pattern, np.uint8))
    del blocks


import signal  # noqa: E402
import time  # noqa: E402
ALARM = int(os.environ.get("VERIF_CALL_ALARM", "0"))


def main():
    for line in sys.stdin:
        line = line.strip()
        if not line:
            continue
        req = json.loads(line)
        print("BEGIN %s" % req["id"], flush=True)
        if ALARM:
            signal.alarm(ALARM)     # default action: SIGALRM kills a worker stuck inside native code
        fn = R.resolve(mh, req["fn"])
        lays = req.get("layouts") or ["C"] * len(req["args"])
        args = [R.build_arg(a, l, fill=1) for a, l in zip(req["args"], lays)]
        args = [R.build_special(a) for a in args]
        kl = req.get("klayouts") or {}
        kwargs = {k: R.build_special(R.build_arg(v, kl.get(k, "C"), fill=1)) for k, v in req["kwargs"].items()}
        keep = [a.copy() if isinstance(a, np.ndarray) else None for a in args]
        frozen = [(a, a.tobytes()) for a in list(args) + list(kwargs.values())
                  if isinstance(a, np.ndarray) and not a.flags.writeable and a.dtype != object]
        if req.get("predirty") is not None:
            n = sum(a.nbytes for a in args if isinstance(a, np.ndarray)) or 64
            dirty_heap(n, req["predirty"])
            # numpy recycles small buffers by size: also dirty blocks of the sizes a result of the first arguments' shape would
            # have in any item size, so that an output the kernel forgets to write shows the pattern
            for a in args:
                if isinstance(a, np.ndarray) and a.size:
                    for item in (1, 2, 4, 8):
                        blocks = [np.full(a.size * item, req["predirty"], np.uint8) for _ in range(4)]
                        del blocks
        out = {"id": req["id"], "res": None, "exc": None}
        t0 = time.time()
        try:
            res = fn(*args, **kwargs)
            out["res"] = {"repr": "not recorded"} if os.environ.get("VERIF_NO_CANON") else R.canon(res)
        except (ValueError, TypeError, RuntimeError, NotImplementedError, MemoryError, IndexError, KeyError,
                OverflowError, ZeroDivisionError, AttributeError, AssertionError, FloatingPointError) as e:
            out["exc"] = type(e).__name__
            out["msg"] = str(e)[:200]
        except Exception as e:
            if not os.environ.get("VERIF_ANY_EXC"):
                raise
            out["exc"] = type(e).__name__
            out["msg"] = str(e)[:200]
        unchanged = True
        for a, k in zip(args, keep):
            if k is not None and not (a.shape == k.shape and np.array_equal(a, k, equal_nan=(a.dtype.kind == "f"))):
                unchanged = False
        out["args_unchanged"] = unchanged
        if any(a.tobytes() != b for a, b in frozen):
            out["readonly_modified"] = True
        out["elapsed"] = round(time.time() - t0, 3)
        if ALARM:
            signal.alarm(0)
        print("RES " + json.dumps(out, default=repr), flush=True)


if __name__ == "__main__":
    main()
