"""Runs batches of registry calls in isolated worker processes (optionally ASan / MALLOC_PERTURB_ / rlimits)."""
import json
import os
import resource
import signal
import subprocess
import sys

HERE = os.path.dirname(os.path.abspath(__file__))
ASAN_LIB = "/usr/lib/x86_64-linux-gnu/libasan.so.8"


def run_batch(lib, reqs, asan=False, perturb=None, timeout_per_call=20, mem_gb=None):
    """Returns list of outcome dicts aligned with reqs:
       {"res"/"exc"/...} for completed calls, {"crash": {...}} for the call that killed the worker,
       {"hang": True} for a call exceeding the time limit.  A crashed/hung batch is resumed after the culprit."""
    results = [None] * len(reqs)
    start = 0
    while start < len(reqs):
        env = dict(os.environ)
        env["VERIF_LIB"] = lib
        env["PYTHONHASHSEED"] = "0"
        env["PYTHONPATH"] = ""
        if asan:
            env["LD_PRELOAD"] = ASAN_LIB + " /usr/lib/x86_64-linux-gnu/libstdc++.so.6"   # libstdc++ so that ASan can intercept __cxa_throw
            env["ASAN_OPTIONS"] = "detect_leaks=0:abort_on_error=0:exitcode=66:allocator_may_return_null=1:max_allocation_size_mb=3072"
        if perturb is not None:
            env["MALLOC_PERTURB_"] = str(perturb)

        def limits():
            if mem_gb and not asan:
                lim = int(mem_gb * (1 << 30))
                resource.setrlimit(resource.RLIMIT_AS, (lim, lim))
        p = subprocess.Popen(["/venv/bin/python", os.path.join(HERE, "worker.py")], stdin=subprocess.PIPE,
                             stdout=subprocess.PIPE, stderr=subprocess.PIPE, text=True, env=env, preexec_fn=limits)
        payload = "".join(json.dumps(r) + "\n" for r in reqs[start:])
        try:
            out, err = p.communicate(payload, timeout=timeout_per_call * max(1, len(reqs) - start) * 0.25 + timeout_per_call)
            timed_out = False
        except subprocess.TimeoutExpired:
            p.kill()
            out, err = p.communicate()
            timed_out = True
        last_begin = None
        done = set()
        for line in out.splitlines():
            if line.startswith("BEGIN "):
                last_begin = line[6:].strip()
            elif line.startswith("RES "):
                o = json.loads(line[4:])
                idx = next(i for i in range(start, len(reqs)) if str(reqs[i]["id"]) == str(o["id"]) and results[i] is None)
                results[idx] = o
                done.add(idx)
        nxt = start
        while nxt < len(reqs) and results[nxt] is not None:
            nxt += 1
        if nxt >= len(reqs):
            break
        # worker died or hung on request nxt (or before starting it)
        if last_begin is not None and str(reqs[nxt]["id"]) == str(last_begin):
            if timed_out:
                results[nxt] = {"id": reqs[nxt]["id"], "hang": True}
            else:
                results[nxt] = {"id": reqs[nxt]["id"], "crash": {"returncode": p.returncode, "stderr": err[-3000:]}}
            start = nxt + 1
        else:
            if p.returncode not in (0, None) and last_begin is None and nxt == start:
                # worker could not even start
                raise RuntimeError("worker failed to start: rc=%s\n%s" % (p.returncode, err[-2000:]))
            if timed_out:
                results[nxt] = {"id": reqs[nxt]["id"], "hang": True}
                start = nxt + 1
            else:
                start = nxt
    return results
