"""Common machinery of the checks: Coq obligations, model driver, implementation import,
layouts, evidence, violation reporting, known findings."""
import hashlib
import importlib
import json
import os
import random
import re
import subprocess
import sys
import time

VERIF = os.path.dirname(os.path.dirname(os.path.dirname(os.path.abspath(__file__))))
sys.path.insert(0, os.path.join(VERIF, "tools"))
from vlib import build as vbuild  # noqa: E402

COQ = os.path.join(VERIF, "coq")
DRV = os.path.join(VERIF, "ocaml", "modeldrv")

ALLOWED_AXIOM_PREFIXES = (
    # axioms declared by the standard library itself (named in the trusted base when they occur)
    "ClassicalDedekindReals.", "FunctionalExtensionality.", "Classical_Prop.", "Eqdep.", "JMeq.",
    "ProofIrrelevance.", "Reals.", "Rdefinitions.", "Raxioms.", "ClassicalEpsilon.", "PropExtensionality.",
    "Coq.", "PrimInt63.", "PrimFloat.", "Uint63.", "Sint63.", "FloatAxioms.", "FloatOps.", "SpecFloat.",
)


# ----------------------------------------------------------------------------- model driver
class Model:
    def __init__(self, path=DRV):
        self.path = path
        self.p = subprocess.Popen([path], stdin=subprocess.PIPE, stdout=subprocess.PIPE, text=True, bufsize=1)
        self.queries = 0

    def ask(self, line):
        self.p.stdin.write(line + "\n")
        self.p.stdin.flush()
        out = self.p.stdout.readline()
        self.queries += 1
        if not out:
            raise RuntimeError("model driver died on: " + line[:200])
        return out.strip()

    def ints(self, line):
        """Returns list of lists of ints ('|' separated groups), or raises ModelError."""
        out = self.ask(line)
        if not out.startswith("OK"):
            raise ModelError(out)
        body = out[2:].strip()
        return [[int(t) for t in grp.split()] for grp in body.split("|")]

    def close(self):
        try:
            self.p.stdin.close()
            self.p.wait(timeout=5)
        except Exception:
            self.p.kill()


class ModelError(Exception):
    pass


DT_CODES = {"bool": "b", "uint8": "u8", "int8": "i8", "uint16": "u16", "int16": "i16", "uint32": "u32",
            "int32": "i32", "uint64": "u64", "int64": "i64"}
INT_DTYPES = ["bool", "uint8", "int8", "uint16", "int16", "uint32", "int32", "uint64", "int64"]


def enc_arr(a):
    """numpy array -> 'ndim d1..dn v1..vN' (C order, exact integers)."""
    import numpy as np
    a = np.asarray(a)
    flat = a.reshape(-1) if a.flags.c_contiguous else np.ascontiguousarray(a).reshape(-1)
    if a.dtype == bool:
        vals = [int(v) for v in flat]
    elif a.dtype.kind == "f":
        vals = []
        for v in flat:
            iv = int(v)
            if iv != v:
                raise ValueError("non-integer float in exact regime")
            vals.append(iv)
    else:
        vals = [int(v) for v in flat]
    return " ".join([str(a.ndim)] + [str(d) for d in a.shape] + [str(v) for v in vals])


def enc_list(l):
    return " ".join([str(len(l))] + [str(int(v)) for v in l])


# ----------------------------------------------------------------------------- layouts
LAYOUTS = ["C", "F", "strided", "negstride", "offset", "transposed", "readonly", "colcrop", "rowskip"]
# views whose rows are contiguous although the array is not (a cropped window, every second row): what a "contiguous rows" fast
# path would accept
ROW_VIEWS = ["offset", "colcrop", "rowskip"]


def apply_layout(a, kind, fill=None):
    """Returns an array with the same logical content (shape, dtype, values) as `a` in the given
    memory layout."""
    import numpy as np
    a = np.ascontiguousarray(a)
    if kind == "C":
        return a.copy()
    if kind == "F":
        return np.array(a, order="F", copy=True)      # always a fresh buffer (asfortranarray aliases degenerate shapes)
    if kind == "strided":
        big = np.zeros(tuple(2 * d for d in a.shape), a.dtype)
        if fill is not None:
            big[...] = fill
        v = big[tuple(slice(None, None, 2) for _ in a.shape)]
        v[...] = a
        return v
    if kind == "negstride":
        rev = tuple(slice(None, None, -1) for _ in a.shape)
        back = np.array(a[rev], order="C", copy=True)
        return back[rev]
    if kind == "offset":
        big = np.zeros(tuple(d + 3 for d in a.shape), a.dtype)
        if fill is not None:
            big[...] = fill
        v = big[tuple(slice(1, 1 + d) for d in a.shape)]
        v[...] = a
        return v
    if kind == "colcrop":
        big = np.zeros(a.shape[:-1] + (a.shape[-1] + 5,), a.dtype) if a.ndim else np.zeros((), a.dtype)
        if a.ndim == 0:
            big[...] = a
            return big
        if fill is not None:
            big[...] = fill
        v = big[..., 2:2 + a.shape[-1]]
        v[...] = a
        return v
    if kind == "rowskip":
        if a.ndim == 0:
            return a.copy()
        big = np.zeros((2 * a.shape[0],) + a.shape[1:], a.dtype)
        if fill is not None:
            big[...] = fill
        v = big[::2]
        v[...] = a
        return v
    if kind == "transposed":
        t = np.array(a.T, order="C", copy=True)       # (n,1).T is already contiguous: ascontiguousarray would alias `a`
        return t.T
    if kind == "readonly":
        c = a.copy()
        c.setflags(write=False)
        return c
    if kind == "unaligned":
        # same values as a field of a packed record (a 1-byte field in front): byte strides that are not multiples of the item
        # size and a misaligned first element, flags.aligned == False for multi-byte types
        rec = np.zeros(a.shape, dtype=np.dtype([("pad", "u1"), ("v", a.dtype)], align=False))
        if fill is not None:
            rec["pad"] = fill
        rec["v"] = a
        return rec["v"]
    if kind == "swapped":
        # same values, elements stored in the non-native byte order (what a big-endian file reader hands over); one-byte types
        # have no byte order and stay as they are
        return a.astype(a.dtype.newbyteorder("S"))
    raise ValueError(kind)


# ----------------------------------------------------------------------------- implementation
def load_impl(asan=False):
    lib, info = vbuild.build(asan=asan)
    sys.path.insert(0, lib)
    for m in [m for m in sys.modules if m == "mahotas" or m.startswith("mahotas.")]:
        del sys.modules[m]
    mh = importlib.import_module("mahotas")
    if not os.path.abspath(mh.__file__).startswith(os.path.abspath(lib)):
        raise RuntimeError("imported mahotas from %s, not from the fresh build %s" % (mh.__file__, lib))
    return mh, lib, info


# ----------------------------------------------------------------------------- Coq side
def coq_build(prop_id, log_path):
    """Regenerates Gen/, builds Properties/<id>.vo (and the extraction + driver).
    Returns dict(ok, log_tail, failed_file, gen_status)."""
    t0 = time.time()
    targets = ["Properties/%s.vo" % prop_id, "Extract/Extract.vo"]
    p = subprocess.run([os.path.join(VERIF, "tools", "build_model.sh")] + targets, stdout=subprocess.PIPE,
                       stderr=subprocess.STDOUT, text=True)
    with open(log_path, "w") as f:
        f.write(p.stdout)
    res = {"ok": p.returncode == 0, "seconds": round(time.time() - t0, 1), "log_tail": p.stdout[-2500:]}
    m = re.findall(r'File "\./([^"]+)", line (\d+)', p.stdout)
    res["failed_file"] = m[-1][0] if (m and p.returncode != 0) else None
    res["failed_line"] = int(m[-1][1]) if (m and p.returncode != 0) else None
    try:
        res["gen_status"] = json.load(open(os.path.join(COQ, "Gen", "status.json")))
    except Exception:
        res["gen_status"] = {}
    return res


def property_theorems(prop_id):
    src = open(os.path.join(COQ, "Properties", prop_id + ".v")).read()
    return re.findall(r"^(?:Theorem|Corollary)\s+([A-Za-z_0-9']+)", src, re.M)


def print_assumptions(prop_id, theorems):
    """Returns {theorem: [axioms]} (empty list = closed under the global context), or None on failure."""
    tmpdir = os.path.join(VERIF, ".cache", "pa")
    os.makedirs(tmpdir, exist_ok=True)
    fn = os.path.join(tmpdir, "PA_%s_%d.v" % (prop_id, os.getpid()))
    with open(fn, "w") as f:
        f.write("Require Import MV.Properties.%s.\n" % prop_id)
        for t in theorems:
            f.write('Goal True. idtac "@@BEGIN %s". exact I. Qed.\nPrint Assumptions %s.\n' % (t, t))
        f.write('Goal True. idtac "@@END". exact I. Qed.\n')
    p = subprocess.run(["coqc", "-Q", COQ, "MV", fn], stdout=subprocess.PIPE, stderr=subprocess.STDOUT, text=True,
                       cwd=tmpdir)
    for ext in (".v", ".vo", ".vok", ".vos", ".glob"):
        try:
            os.remove(fn[:-2] + ext)
        except OSError:
            pass
    try:
        os.remove(os.path.join(tmpdir, "." + os.path.basename(fn)[:-2] + ".aux"))
    except OSError:
        pass
    if p.returncode != 0:
        return None, p.stdout[-2000:]
    out = {}
    cur = None
    for line in p.stdout.splitlines():
        m = re.match(r"@@BEGIN (\S+)", line)
        if m:
            cur = m.group(1)
            out[cur] = []
            continue
        if line.startswith("@@END"):
            cur = None
            continue
        if cur is None:
            continue
        if "Closed under the global context" in line or line.strip() in ("", "Axioms:"):
            continue
        m = re.match(r"^([A-Za-z_][\w.']*)\s*:", line)
        if m:
            out[cur].append(m.group(1))
    return out, ""


def scan_forbidden():
    """grep for Admitted/admit/Axiom/... in the development (Gen included)."""
    bad = []
    pat = re.compile(r"\b(Admitted|admit|Axiom|Axioms|Parameter|Parameters|Conjecture|Admit Obligations|"
                     r"Unset Guard Checking|Unset Positivity Checking|Unset Universe Checking|bypass_check|"
                     r"type-in-type|impredicative-set)\b")
    for root, _, fs in os.walk(COQ):
        for f in fs:
            if f.endswith(".v"):
                txt = open(os.path.join(root, f)).read()
                txt = re.sub(r"\(\*.*?\*\)", "", txt, flags=re.S)
                for m in pat.finditer(txt):
                    bad.append("%s: %s" % (os.path.relpath(os.path.join(root, f), COQ), m.group(0)))
    return bad


# ----------------------------------------------------------------------------- known findings
def load_known(prop_id):
    try:
        items = json.load(open(os.path.join(VERIF, "known_findings.json")))
    except OSError:
        return []
    return [k for k in items if k.get("property") == prop_id and k.get("status") == "known"]


# ----------------------------------------------------------------------------- results
class Result:
    __slots__ = ("ok", "nontrivial", "detail", "cls")

    def __init__(self, ok, nontrivial=True, detail=None, cls=None):
        self.ok = ok
        self.nontrivial = nontrivial
        self.detail = detail
        self.cls = cls  # classification bucket for the input distribution


def case_key(case):
    return hashlib.sha1(json.dumps(case, sort_keys=True, default=str).encode()).hexdigest()


TRUSTED_BASE_COMMON = [
    "Coq 8.16.1 kernel (coqc); vm_compute used for finite sweeps/witnesses; no native_compute",
    "no axioms declared by this development; Print Assumptions output per theorem is in coverage.theorems",
    "translator tools/translate/*.py (C++ scalar subset / Python ast -> Gallina): unbounded Z, '/' as Z.quot, "
    "stores into template type T wrap modulo 2^bits (signed overflow assumed to wrap), int/npy_intp never overflow",
    "extraction: ExtrOcamlBasic only (its Extract Inductive for bool, option, unit, list, prod, sumbool, sumor; "
    "no Extract Constant of ours); Z kept as the extracted inductive; ocaml/driver.ml (parser/printer)",
    "hand-written models in coq/Model are tied to /repo only by the correspondence check on generated inputs",
    "numpy, CPython, g++ and the C++ standard library are trusted",
]


def run_check(mod, argv):
    """Generic driver for a property module.  mod provides:
         ID, cases(ctx) -> iterable of JSON-able case dicts, run_case(ctx, case) -> Result,
         optional: RULE (text), NOT_PROVED (list), extra_trusted (list), known(ctx, finding) -> bool,
                   setup(ctx), focused_cases(ctx) for the failing-input search."""
    import argparse
    ap = argparse.ArgumentParser()
    ap.add_argument("tier", nargs="?", default=os.environ.get("VERIF_TIER", "quick"))
    ap.add_argument("--replay")
    args = ap.parse_args(argv)
    tier = args.tier if args.tier in ("quick", "thorough") else "quick"
    seed = int(os.environ.get("VERIF_SEED", "20260926"))
    pid = mod.ID
    t0 = time.time()
    os.makedirs(os.path.join(VERIF, "evidence"), exist_ok=True)
    os.makedirs(os.path.join(VERIF, "replays", pid), exist_ok=True)
    os.makedirs(os.path.join(VERIF, ".cache", "logs"), exist_ok=True)
    os.environ.setdefault("PYTHONHASHSEED", "0")

    ctx = type("Ctx", (), {})()
    ctx.tier, ctx.seed, ctx.rng, ctx.pid = tier, seed, random.Random(seed), pid
    ctx.verif = VERIF
    ctx.stats = {}
    ctx.coqchk_admit = list(getattr(mod, "COQCHK_ADMIT", []))

    # 1. Coq obligations
    coq = coq_build(pid, os.path.join(VERIF, ".cache", "logs", "coq_%s.log" % pid))
    theorems = property_theorems(pid)
    assumptions = {}
    coq_problem = None
    if coq["ok"]:
        assumptions, err = print_assumptions(pid, theorems)
        if assumptions is None:
            coq_problem = "Print Assumptions failed: " + err
            assumptions = {}
        else:
            for t, axs in assumptions.items():
                for a in axs:
                    if not a.startswith(ALLOWED_AXIOM_PREFIXES):
                        coq_problem = "theorem %s depends on non-stdlib axiom %s" % (t, a)
    else:
        coq_problem = "Coq build failed in %s (line %s)" % (coq["failed_file"], coq["failed_line"])
    forbidden = scan_forbidden()
    if forbidden and not coq_problem:
        coq_problem = "forbidden construct in development: " + "; ".join(forbidden[:5])
    gen_failed = {k: v for k, v in coq.get("gen_status", {}).items() if v != "ok"}
    if gen_failed:
        # a translation that failed concerns the properties whose obligations (or the extracted model every correspondence uses)
        # are built from that generated file; for the others nothing is unproved
        needed, where = gen_files_needed(pid), {}
        try:
            where = json.load(open(os.path.join(COQ, "Gen", "status_files.json")))
        except (OSError, ValueError):
            pass
        if needed is not None:
            gen_failed = {k: v for k, v in gen_failed.items() if where.get(k) is None or where[k] in needed}
    if thorough_coqchk(tier, pid, coq, ctx) is False and not coq_problem:
        coq_problem = "coqchk failed: " + ctx.stats.get("coqchk_tail", "")

    # 2. implementation + model
    try:
        ctx.mh, ctx.lib, ctx.build = load_impl(asan=False)
    except Exception as e:  # build failure of /repo: cannot decide anything -> report as violation w/o input
        return report_violation(ctx, mod, None, {"broken": {"build": str(e)[-1500:]}}, t0, coq, theorems, assumptions,
                                0, 0, [], no_input=True)
    if not os.path.exists(DRV):
        return report_violation(ctx, mod, None, {"broken": {"model": "model driver missing: " + coq["log_tail"]}}, t0,
                                coq, theorems, assumptions, 0, 0, [], no_input=True)
    ctx.model = Model()
    if hasattr(mod, "setup"):
        mod.setup(ctx)

    if args.replay:
        rp = json.load(open(args.replay))
        if rp.get("case") is None:
            print("replay names a broken obligation, no input: %s" % json.dumps(rp.get("broken")))
            sys.exit(1 if coq_problem else 0)
        mark_case(rp["case"])
        r = mod.run_case(ctx, rp["case"])
        print("replay:", "STILL FAILS" if not r.ok else "passes", json.dumps(r.detail, default=str)[:2000])
        sys.exit(0 if r.ok else 1)

    # 3. corpus first, then generated cases
    failures = []
    seen = set()
    nontrivial = set()
    dist = {}
    samples = []
    evaluations = 0
    known = load_known(pid)
    known_hits = {}

    def feed(case, origin):
        nonlocal evaluations
        k = case_key(case)
        if k in seen:
            return
        seen.add(k)
        mark_case(case)
        try:
            r = mod.run_case(ctx, case)
        except ModelError as e:
            r = Result(False, True, {"model_error": str(e)})
        except Exception as e:  # an exception the case did not expect (valid input rejected, crash in glue, ...)
            import traceback
            r = Result(False, True, {"why": "unexpected exception from the implementation or harness",
                                     "exception": repr(e)[:500], "trace": traceback.format_exc()[-1200:]})
        evaluations += 1
        if r.cls:
            dist[r.cls] = dist.get(r.cls, 0) + 1
        if r.nontrivial:
            nontrivial.add(k)
        if len(samples) < 3 and r.nontrivial and r.ok:
            samples.append(case)
        if not r.ok:
            for kf in known:
                if hasattr(mod, "matches_known") and mod.matches_known(ctx, kf, case, r):
                    known_hits.setdefault(kf["id"], (kf, case, r))
                    return
            failures.append((case, r, origin))

    cdir = os.path.join(VERIF, "corpus", pid)
    if os.path.isdir(cdir):
        for fn in sorted(os.listdir(cdir)):
            if fn.endswith(".json"):
                feed(json.load(open(os.path.join(cdir, fn)))["case"], "corpus")
    ctx.stats["corpus_cases"] = evaluations
    budget = getattr(mod, "BUDGET_S", {"quick": 120, "thorough": 900})[tier]
    tgen = time.time()
    for case in mod.cases(ctx):
        feed(case, "generated")
        if len(failures) >= 5:
            break
        if time.time() - tgen > budget:
            ctx.stats["budget_exhausted"] = True
            break
    # known findings must still reproduce (otherwise the entry is stale -> just not printed)
    for kf in known:
        if kf["id"] not in known_hits and "case" in kf:
            try:
                r = mod.run_case(ctx, kf["case"])
            except ModelError as e:
                r = Result(False, True, {"model_error": str(e)})
            evaluations += 1
            if not r.ok:
                known_hits[kf["id"]] = (kf, kf["case"], r)

    # 4. a broken obligation with no disagreement so far: focused search for a failing input
    if (coq_problem or gen_failed) and not failures:
        tsearch = time.time()
        gen = mod.focused_cases(ctx) if hasattr(mod, "focused_cases") else mod.cases(ctx)
        ctx.rng = random.Random(seed + 1)
        for case in gen:
            feed(case, "search")
            if failures or time.time() - tsearch > budget:
                break

    ctx.model.close()
    for kid, (kf, case, r) in sorted(known_hits.items()):
        print("KNOWN-FINDING: property=%s %s" % (pid, kf["what"]))
    ctx.stats["input_distribution"] = dist
    if failures:
        case, r, origin = failures[0]
        case = shrink(mod, ctx, case) if hasattr(mod, "shrink") else case
        return report_violation(ctx, mod, case, {"detail": r.detail, "origin": origin,
                                                 "coq_problem": coq_problem, "n_failures": len(failures)},
                                t0, coq, theorems, assumptions, evaluations, len(nontrivial), samples)
    if coq_problem or gen_failed:
        return report_violation(ctx, mod, None,
                                {"broken": {"obligation": coq_problem, "translator": gen_failed,
                                            "file": coq.get("failed_file"), "line": coq.get("failed_line"),
                                            "coq_log_tail": coq["log_tail"][-1500:]}},
                                t0, coq, theorems, assumptions, evaluations, len(nontrivial), samples, no_input=True)
    write_evidence(ctx, mod, t0, coq, theorems, assumptions, evaluations, len(nontrivial), samples, 0)
    print("OK property=%s tier=%s obligations=%d evaluations=%d distinct_nontrivial=%d wall=%.1fs" %
          (pid, tier, len(theorems), evaluations, len(nontrivial), time.time() - t0))
    sys.exit(0)


def mark_case(case):
    """records the case about to be run, for the supervisor in ./check (a kernel that corrupts memory can kill this process)"""
    path = os.environ.get("VERIF_CASE_MARKER")
    if path:
        try:
            with open(path, "w") as f:
                json.dump(case, f, default=str)
        except (OSError, TypeError, ValueError):
            pass


def gen_files_needed(pid):
    """Names of the Gen/*.v files in the dependency closure of Properties/<pid>.v and Extract/Extract.v (from coq_makefile's
    dependency file); None when that file cannot be read (then every failed translation counts)."""
    deps = {}
    try:
        for line in open(os.path.join(COQ, ".Makefile.d")):
            if ":" not in line:
                continue
            lhs, rhs = line.split(":", 1)
            for t in lhs.split():
                if t.endswith(".vo"):
                    deps.setdefault(t, set()).update(d for d in rhs.split() if d.endswith(".vo"))
    except OSError:
        return None
    seen, todo = set(), ["Properties/%s.vo" % pid, "Extract/Extract.vo"]
    if todo[0] not in deps:
        return None
    while todo:
        t = todo.pop()
        if t in seen:
            continue
        seen.add(t)
        todo.extend(deps.get(t, ()))
    return {os.path.basename(t)[:-3] for t in seen if t.startswith("Gen/")}


def thorough_coqchk(tier, pid, coq, ctx):
    if tier != "thorough" or not coq["ok"] or os.environ.get("VERIF_NO_COQCHK"):
        return None
    t0 = time.time()
    admit = []
    for m in getattr(ctx, "coqchk_admit", None) or []:
        admit += ["-admit", m]
    ctx.stats["coqchk_admitted_libraries"] = getattr(ctx, "coqchk_admit", None) or []
    p = subprocess.run(["timeout", "1500", "coqchk", "-silent", "-o"] + admit + ["-Q", COQ, "MV", "MV.Properties." + pid],
                       stdout=subprocess.PIPE, stderr=subprocess.STDOUT, text=True, cwd=COQ)
    ctx.stats["coqchk_s"] = round(time.time() - t0, 1)
    ctx.stats["coqchk_tail"] = p.stdout[-1500:]
    ctx.stats["coqchk_ok"] = p.returncode == 0
    return p.returncode == 0


def shrink(mod, ctx, case):
    try:
        cur = case
        for _ in range(200):
            progressed = False
            for cand in mod.shrink(ctx, cur):
                try:
                    r = mod.run_case(ctx, cand)
                except Exception:
                    continue
                if not r.ok:
                    cur = cand
                    progressed = True
                    break
            if not progressed:
                break
        return cur
    except Exception:
        return case


def evidence_dict(ctx, mod, t0, coq, theorems, assumptions, evaluations, nontrivial, samples, violations):
    discharged = len([t for t in theorems if t in assumptions]) if coq["ok"] else 0
    cov = {
        "obligations": len(theorems),
        "discharged": discharged,
        "checker_cmd": "tools/build_model.sh Properties/%s.vo Extract/Extract.vo  (coq_makefile + make, full .vo build; "
                       "then coqc on a Print Assumptions script%s)" % (ctx.pid, "; coqchk -o" if ctx.tier == "thorough" else ""),
        "trusted_base": TRUSTED_BASE_COMMON + list(getattr(mod, "EXTRA_TRUSTED", [])),
        "theorems": [{"name": t, "assumptions": assumptions.get(t, ["<not checked>"]) or ["Closed under the global context"]}
                     for t in theorems],
        "evaluations": evaluations,
        "distinct_nontrivial": nontrivial,
        "rule": getattr(mod, "RULE", ""),
        "samples": samples if samples else [{"note": "no passing non-trivial sample recorded"}],
        "not_proved": list(getattr(mod, "NOT_PROVED", [])),
        "generated": coq.get("gen_status", {}),
        "coq_build_s": coq.get("seconds"),
        "build": getattr(ctx, "build", {}),
    }
    cov.update(ctx.stats)
    return {
        "property_id": ctx.pid, "tier": ctx.tier, "seed": ctx.seed, "level": "proof",
        "coverage": cov,
        "assumptions": list(getattr(mod, "ASSUMPTIONS", [])),
        "wall_s": round(time.time() - t0, 2),
        "violations": violations,
    }


def write_evidence(ctx, mod, t0, coq, theorems, assumptions, evaluations, nontrivial, samples, violations):
    ev = evidence_dict(ctx, mod, t0, coq, theorems, assumptions, evaluations, nontrivial, samples, violations)
    with open(os.path.join(VERIF, "evidence", ctx.pid + ".json"), "w") as f:
        json.dump(ev, f, indent=1, default=str)


def report_violation(ctx, mod, case, info, t0, coq, theorems, assumptions, evaluations, nontrivial, samples,
                     no_input=False):
    pid = ctx.pid
    body = {"property": pid, "kind": "no-failing-input-found" if case is None else "failing-input",
            "case": case, "seed": ctx.seed, "tier": ctx.tier}
    body.update(info)
    h = hashlib.sha1(json.dumps(body, sort_keys=True, default=str).encode()).hexdigest()[:12]
    path = os.path.join(VERIF, "replays", pid, h + ".json")
    with open(path, "w") as f:
        json.dump(body, f, indent=1, default=str)
    write_evidence(ctx, mod, t0, coq, theorems, assumptions, evaluations, nontrivial, samples, 1)
    line = "VIOLATION property=%s replay=%s" % (pid, path)
    if case is None:
        line += " no-failing-input-found"
    print(json.dumps(info, default=str)[:3000])
    print(line)
    sys.exit(1)
