"""Input generators shared by the property modules (all randomness from the ctx.rng passed in)."""
import numpy as np

INT_INFO = {
    "bool": (0, 1), "uint8": (0, 255), "int8": (-128, 127), "uint16": (0, 65535), "int16": (-32768, 32767),
    "uint32": (0, 2**32 - 1), "int32": (-2**31, 2**31 - 1), "uint64": (0, 2**64 - 1), "int64": (-2**63, 2**63 - 1),
}
INT_DTYPES = list(INT_INFO)
SMALL_DIMS = [1, 1, 2, 2, 3, 3, 4, 5, 7]


def rand_shape(rng, ndim=None, maxnd=3, big=False, maxsize=64):
    nd = ndim if ndim is not None else rng.choice([1, 2, 2, 2, 3])
    while True:
        sh = [rng.choice(SMALL_DIMS) for _ in range(nd)]
        if big and rng.random() < 0.15:
            sh[rng.randrange(nd)] = rng.randint(8, 40)
        n = 1
        for d in sh:
            n *= d
        if n <= maxsize or big:
            return sh


def rand_value(rng, dtype, mode="dense"):
    lo, hi = INT_INFO[dtype]
    if dtype == "bool":
        return rng.randint(0, 1)
    r = rng.random()
    if mode == "small":
        return rng.randint(max(lo, -3), min(hi, 6))
    if r < 0.35:
        return rng.choice([lo, lo + 1, lo + 2, hi, hi - 1, hi - 2, 0, 1, max(lo, -1)])
    if r < 0.75:
        return rng.randint(max(lo, -6), min(hi, 9))
    return rng.randint(lo, hi)


def rand_values(rng, dtype, n, mode=None):
    mode = mode or rng.choice(["dense", "dense", "small", "plateau"])
    if mode == "plateau":
        pal = [rand_value(rng, dtype) for _ in range(2)]
        return [rng.choice(pal) for _ in range(n)]
    return [rand_value(rng, dtype, mode) for _ in range(n)]


def mk(dtype, shape, vals):
    return np.array(vals, dtype=np.dtype(dtype) if dtype != "bool" else bool).reshape(shape)


def size(shape):
    n = 1
    for d in shape:
        n *= d
    return n
