"""usage: record_fix.py <PROP> <id> <sha> <what...>  -- appends a 'fixed' entry + reverse patch under seeded/revert-<sha>/"""
import json, subprocess, sys, os
prop, fid, sha = sys.argv[1:4]
what = " ".join(sys.argv[4:])
sha = subprocess.check_output(["git", "-C", "/repo", "rev-parse", "--short", sha], text=True).strip()
k = json.load(open('/verif/known_findings.json'))
k.append({"status": "fixed", "property": prop, "id": fid, "commit": sha, "what": what})
json.dump(k, open('/verif/known_findings.json', 'w'), indent=1)
open('/verif/KNOWN_FINDINGS.md', 'a').write("fixed: property=%s %s %s\n" % (prop, sha, what))
d = '/verif/seeded/revert-%s' % sha
os.makedirs(d, exist_ok=True)
open(d + '/patch.diff', 'w').write(subprocess.check_output(["git", "-C", "/repo", "diff", sha, sha + "~1"], text=True))
json.dump({"property": prop, "kind": "revert of fix commit " + sha, "what": what}, open(d + '/meta.json', 'w'), indent=1)
print("recorded", sha)
