#!/bin/bash
# usage: tools/coqchk_full.sh <ID>  -- soak target: coqchk of MV.Properties.<ID> with nothing admitted (C20: > 25 CPU minutes
# because coq-interval, Coquelicot, Flocq and MathComp are re-checked as well).  Prints the context summary; exit code of coqchk.
cd /verif/coq || exit 2
[ -f Makefile ] || coq_makefile -f _CoqProject -o Makefile >/dev/null
timeout 7200 make -j16 >/dev/null 2>&1 || { echo "build failed"; exit 2; }
exec timeout 14400 coqchk -silent -o -Q . MV MV.Properties.$1
