"""Runs every translator; writes coq/Gen/*.v (write-if-changed) and prints a status line per target."""
import os, sys, json
sys.path.insert(0, os.path.dirname(os.path.abspath(__file__)))
import gen_scalar
import gen_py
import gen_colors
import gen_tables
import gen_outconv
import gen_guards
import gen_threads
import gen_fastpath
import gen_offsets

REPO = os.environ.get("VERIF_REPO", "/repo")
GEN = os.path.join(os.path.dirname(os.path.dirname(os.path.dirname(os.path.abspath(__file__)))), "coq", "Gen")

def main():
    status = {}
    files = {}

    def note(st, fname):
        for k in st:
            files[k] = fname
        status.update(st)
    text, st = gen_scalar.generate(REPO)
    gen_scalar.write_if_changed(os.path.join(GEN, "Scalar_gen.v"), text)
    note(st, "Scalar_gen")
    text, st = gen_py.generate(REPO)
    gen_scalar.write_if_changed(os.path.join(GEN, "PyThresh_gen.v"), text)
    note(st, "PyThresh_gen")
    text, st = gen_colors.generate(REPO)
    gen_scalar.write_if_changed(os.path.join(GEN, "Colors_gen.v"), text)
    note(st, "Colors_gen")
    text, st = gen_tables.generate(REPO)
    gen_scalar.write_if_changed(os.path.join(GEN, "Tables_gen.v"), text)
    note(st, "Tables_gen")
    text, st = gen_outconv.generate(REPO)
    gen_scalar.write_if_changed(os.path.join(GEN, "OutConv_gen.v"), text)
    note(st, "OutConv_gen")
    text, st = gen_threads.generate(REPO)
    gen_scalar.write_if_changed(os.path.join(GEN, "Threads_gen.v"), text)
    note(st, "Threads_gen")
    text, st = gen_fastpath.generate(REPO)
    gen_scalar.write_if_changed(os.path.join(GEN, "FastPath_gen.v"), text)
    note(st, "FastPath_gen")
    text, st = gen_offsets.generate(REPO)
    gen_scalar.write_if_changed(os.path.join(GEN, "Offsets_gen.v"), text)
    note(st, "Offsets_gen")
    text, st = gen_guards.generate(REPO)
    gen_scalar.write_if_changed(os.path.join(GEN, "Guards_gen.v"), text)
    note(st, "Guards_gen")
    for k, v in status.items():
        print(k, v)
    with open(os.path.join(GEN, "status.json"), "w") as f:
        json.dump(status, f, indent=1, sort_keys=True)
    with open(os.path.join(GEN, "status_files.json"), "w") as f:
        json.dump(files, f, indent=1, sort_keys=True)

if __name__ == "__main__":
    main()
