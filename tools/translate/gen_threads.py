"""Regenerates coq/Gen/Threads_gen.v: the inventory of state that outlives a call, and of the lock discipline (C12).

C++ (every .cpp/.hpp/.h under mahotas/):
  cxx_static_state      `static` data (function-local or namespace-scope) that is not const/constexpr
  cxx_namespace_vars    non-const variables at file / namespace scope (module method tables end up here)
  gil_release_uses      how each gil_release object is created: "stack" (RAII local) or anything else
  gil_release_struct    the release/re-acquire protocol of utils.hpp::gil_release as (ctor, dtor, restore) call lists
Python (every module under mahotas/):
  py_global_writes      (module, function, name) for each `global name` that the function assigns
  py_global_inits       for each of those: is every assignment to the global the LAST statement of an
                        `if <name> is None:` block, with a right-hand side that is a local name (the value is complete when published)
  py_mutated_containers module-level lists/dicts/sets that some function mutates (.append/.pop/.update/[k]=/del ...)
"""
import ast
import os
import re


def strip(src):
    src = re.sub(r"//[^\n]*", "", src)
    src = re.sub(r"/\*.*?\*/", "", src, flags=re.S)
    src = re.sub(r'"(?:\\.|[^"\\])*"', '""', src)
    src = re.sub(r"'(?:\\.|[^'\\])'", "' '", src)
    return src


def cstr(s):
    return '"' + " ".join(s.split()).replace('"', '""') + '"'


def cxx_inventory(repo):
    statics, nsvars, gil = [], [], []
    files = []
    for root, _, fs in os.walk(os.path.join(repo, "mahotas")):
        for f in fs:
            if f.endswith((".cpp", ".hpp", ".h")):
                files.append(os.path.join(root, f))
    for path in sorted(files):
        rel = os.path.relpath(path, os.path.join(repo, "mahotas"))
        src = strip(open(path).read())
        src = re.sub(r"\\\n", " ", src)                          # join continued lines, then drop preprocessor lines
        src = re.sub(r"(?m)^\s*#.*$", "", src)
        # --- static data
        for m in re.finditer(r"\bstatic\b([^;{}()]*?)(;|=|\(|\{)", src):
            decl = m.group(1)
            if m.group(2) == "(" or re.search(r"\b(const|constexpr)\b", decl):
                continue        # a static function / method, or constant data
            if m.group(2) == "{" and "=" not in decl and not re.search(r"\]\s*$", decl.strip()):
                continue        # static function with the brace on the same statement
            statics.append((rel, "static" + decl))
        # --- namespace-scope variables: walk statements at depth where only namespaces are open
        depth_stack = []        # kinds of the open braces
        i, stmt_start = 0, 0
        while i < len(src):
            c = src[i]
            if c == "{":
                head = src[stmt_start:i]
                kind = "ns" if re.search(r"\bnamespace\b[^;{}()=]*$", head) or re.search(r'extern\s*""\s*$', head) else "other"
                if kind == "other" and all(k == "ns" for k in depth_stack) and re.search(r"=\s*$", head):
                    # brace initialiser of a namespace-scope variable:  T name[] = { ... };
                    decl = head.strip()
                    if not re.search(r"\b(const|constexpr|typedef|using)\b", decl):
                        nsvars.append((rel, decl.rstrip("=").strip()))
                depth_stack.append(kind)
                stmt_start = i + 1
            elif c == "}":
                if depth_stack:
                    depth_stack.pop()
                stmt_start = i + 1
            elif c == ";":
                if all(k == "ns" for k in depth_stack):
                    decl = src[stmt_start:i].strip()
                    if decl and not re.match(r"(typedef|using|struct|class|template|extern|enum|friend|namespace|return|union)\b", decl) \
                            and "(" not in decl.split("=")[0] and not re.search(r"\b(const|constexpr)\b", decl.split("=")[0]) \
                            and re.search(r"\w\s+[\w:\[\]\*&]+\s*(=|$)", decl):
                        nsvars.append((rel, decl.split("=")[0].strip()))
                stmt_start = i + 1
            i += 1
        # --- how gil_release objects come to life
        for m in re.finditer(r"\bgil_release\b([^;{}]*)[;{]", src):
            rest = m.group(1).strip()
            before = src[max(0, m.start() - 12):m.start()]
            if re.search(r"\bstruct\s*$", before):
                continue
            if re.fullmatch(r"\w+", rest) and not re.search(r"\b(new|static)\s*$", before):
                gil.append((rel, "stack"))
            elif rest.startswith("(") or rest == "":
                continue        # constructor/destructor declarations inside the struct
            else:
                gil.append((rel, "other: " + rest[:40]))
    return statics, nsvars, gil


def nogil_api(repo):
    """identifiers of the Python C API that occur between a `gil_release x;` and the end of its block (or an explicit x.restore())"""
    out = []
    files = []
    for root, _, fs in os.walk(os.path.join(repo, "mahotas")):
        for f in fs:
            if f.endswith((".cpp", ".hpp", ".h")):
                files.append(os.path.join(root, f))
    for path in sorted(files):
        rel = os.path.relpath(path, os.path.join(repo, "mahotas"))
        src = strip(open(path).read())
        for m in re.finditer(r"\bgil_release\s+(\w+)\s*;", src):
            depth, i = 0, m.end()
            while i < len(src):
                if src[i] == "{":
                    depth += 1
                elif src[i] == "}":
                    if depth == 0:
                        break
                    depth -= 1
                i += 1
            region = src[m.end():i]
            # after an explicit x.restore() the lock is held until the end of the innermost block containing that call
            while True:
                r = re.search(r"\b%s\s*\.\s*restore\s*\(" % re.escape(m.group(1)), region)
                if not r:
                    break
                d2, j = 0, r.end()
                while j < len(region):
                    if region[j] == "{":
                        d2 += 1
                    elif region[j] == "}":
                        if d2 == 0:
                            break
                        d2 -= 1
                    j += 1
                region = region[:r.start()] + region[j:]
            for ident in sorted(set(re.findall(r"\bPy[A-Za-z_]\w*", region))):
                out.append((rel, ident))
    return sorted(set(out))


def written_in(repo, rel, decl):
    """is the namespace-scope variable assigned anywhere in its file after its definition?"""
    name = re.findall(r"(\w+)\s*(?:\[[^\]]*\])?\s*$", decl)
    if not name:
        return True
    name = name[0]
    src = strip(open(os.path.join(repo, "mahotas", rel)).read())
    hits = re.findall(r"\b%s\b\s*(?:\[[^\]]*\])*\s*(=(?!=)|\+=|-=|\*=|/=|\+\+|--|\|=|&=)" % re.escape(name), src)
    pre = re.findall(r"(\+\+|--)\s*%s\b" % re.escape(name), src)
    return len(hits) + len(pre) > 1         # the definition itself is one `=`


def gil_struct(repo):
    src = strip(open(os.path.join(repo, "mahotas", "utils.hpp")).read())
    m = re.search(r"struct\s+gil_release\s*\{(.*?)\n\};", src, re.S)
    if not m:
        raise ValueError("gil_release not found in utils.hpp")
    body = m.group(1)

    def calls(pat):
        mm = re.search(pat, body, re.S)
        if not mm:
            raise ValueError("gil_release: member not found: " + pat)
        return re.findall(r"\b(PyEval_\w+|restore|active_\s*=\s*\w+)\b", mm.group(1))
    ctor = calls(r"gil_release\s*\(\s*\)\s*\{(.*?)\}")
    dtor = calls(r"~gil_release\s*\(\s*\)\s*\{(.*?)\}")
    restore = calls(r"void\s+restore\s*\(\s*\)\s*\{(.*?)\}")
    guarded = re.search(r"~gil_release\s*\(\s*\)\s*\{\s*if\s*\(\s*active_\s*\)\s*restore\s*\(\s*\)\s*;\s*\}", body) is not None
    return ctor, dtor, restore, guarded


MUTATORS = {"append", "extend", "insert", "pop", "remove", "clear", "update", "setdefault", "popitem", "add", "discard", "sort", "reverse"}


def py_inventory(repo):
    writes, inits, mutated = [], [], []
    base = os.path.join(repo, "mahotas")
    files = []
    for root, _, fs in os.walk(base):
        if "tests" in root.split(os.sep) or "demos" in root.split(os.sep):
            continue
        for f in fs:
            if f.endswith(".py"):
                files.append(os.path.join(root, f))
    for path in sorted(files):
        mod = os.path.relpath(path, base)[:-3].replace(os.sep, ".")
        tree = ast.parse(open(path).read())
        containers = set()
        for st in tree.body:
            if isinstance(st, ast.Assign) and isinstance(st.value, (ast.List, ast.Dict, ast.Set, ast.ListComp, ast.DictComp, ast.SetComp)):
                for t in st.targets:
                    if isinstance(t, ast.Name) and t.id != "__all__":
                        containers.add(t.id)
            if isinstance(st, ast.Assign) and isinstance(st.value, ast.Call) and ast.unparse(st.value.func) in ("dict", "list", "set", "collections.defaultdict", "defaultdict", "OrderedDict"):
                for t in st.targets:
                    if isinstance(t, ast.Name):
                        containers.add(t.id)
        for fn in ast.walk(tree):
            if not isinstance(fn, (ast.FunctionDef, ast.AsyncFunctionDef)):
                continue
            globs = set()
            for n in ast.walk(fn):
                if isinstance(n, ast.Global):
                    globs.update(n.names)
            local_names = {a.arg for a in fn.args.args + fn.args.kwonlyargs}
            for n in ast.walk(fn):
                if isinstance(n, (ast.Assign, ast.AugAssign, ast.AnnAssign)):
                    for t in (n.targets if isinstance(n, ast.Assign) else [n.target]):
                        for sub in ast.walk(t):
                            if isinstance(sub, ast.Name) and isinstance(sub.ctx, ast.Store) and sub.id not in globs:
                                local_names.add(sub.id)
            for g in sorted(globs):
                assigned = [n for n in ast.walk(fn) if isinstance(n, (ast.Assign, ast.AugAssign)) and
                            any(isinstance(s, ast.Name) and s.id == g and isinstance(s.ctx, ast.Store)
                                for t in (n.targets if isinstance(n, ast.Assign) else [n.target]) for s in ast.walk(t))]
                if not assigned:
                    continue
                writes.append((mod, fn.name, g))
                # complete-before-publish: every store to g is `g = <local name>` as the last statement of `if g is None:`;
                # and g is never the base of a subscript/attribute store or the receiver of a mutator inside the function
                ok = True
                for n in assigned:
                    if not (isinstance(n, ast.Assign) and len(n.targets) == 1 and isinstance(n.targets[0], ast.Name)
                            and isinstance(n.value, ast.Name) and n.value.id in local_names):
                        ok = False
                    parent_ok = False
                    for iff in ast.walk(fn):
                        if isinstance(iff, ast.If) and ast.unparse(iff.test) == "%s is None" % g and iff.body and iff.body[-1] is n:
                            parent_ok = True
                    ok = ok and parent_ok
                for n in ast.walk(fn):
                    if isinstance(n, (ast.Subscript, ast.Attribute)) and isinstance(n.ctx, (ast.Store, ast.Del)) \
                            and isinstance(n.value, ast.Name) and n.value.id == g:
                        ok = False
                    if isinstance(n, ast.Call) and isinstance(n.func, ast.Attribute) and isinstance(n.func.value, ast.Name) \
                            and n.func.value.id == g and n.func.attr in MUTATORS:
                        ok = False
                inits.append((mod, fn.name, g, ok))
            for n in ast.walk(fn):
                tgt = None
                if isinstance(n, ast.Call) and isinstance(n.func, ast.Attribute) and n.func.attr in MUTATORS and isinstance(n.func.value, ast.Name):
                    tgt = n.func.value.id
                if isinstance(n, ast.Subscript) and isinstance(n.ctx, (ast.Store, ast.Del)) and isinstance(n.value, ast.Name):
                    tgt = n.value.id
                if tgt in containers and tgt not in local_names:
                    mutated.append((mod, fn.name, tgt))
    return writes, inits, sorted(set(mutated))


def generate(repo):
    out = ["(* GENERATED by tools/translate/gen_threads.py from /repo/mahotas (C++ and Python sources) -- do not edit. *)\n",
           "Require Import List String Bool.\nImport ListNotations.\nOpen Scope string_scope.\n\n"]
    status = {}
    try:
        statics, nsvars, gil = cxx_inventory(repo)
        out.append("Definition cxx_static_state : list (string * string) :=\n  [%s].\n" % "; ".join("(%s, %s)" % (cstr(a), cstr(b)) for a, b in statics))
        out.append("(* (file, declaration, assigned again after its definition) *)\nDefinition cxx_namespace_vars : list (string * string * bool) :=\n  [%s].\n"
                   % ";\n   ".join("(%s, %s, %s)" % (cstr(a), cstr(b), "true" if written_in(repo, a, b) else "false") for a, b in nsvars))
        out.append("Definition gil_release_uses : list (string * string) :=\n  [%s].\n" % ";\n   ".join("(%s, %s)" % (cstr(a), cstr(b)) for a, b in gil))
        out.append("(* Python C-API identifiers used while the lock is released *)\nDefinition nogil_python_api : list (string * string) :=\n  [%s].\n"
                   % ";\n   ".join("(%s, %s)" % (cstr(a), cstr(b)) for a, b in nogil_api(repo)))
        status["threads:cxx_inventory"] = "ok"
    except (OSError, ValueError) as e:
        out.append("(* TRANSLATION FAILED for the C++ inventory: %s *)\n" % e)
        status["threads:cxx_inventory"] = "FAILED: %s" % e
    try:
        ctor, dtor, restore, guarded = gil_struct(repo)
        out.append("Definition gil_release_ctor : list string := [%s].\n" % "; ".join(cstr(x) for x in ctor))
        out.append("Definition gil_release_restore : list string := [%s].\n" % "; ".join(cstr(x) for x in restore))
        out.append("Definition gil_release_dtor_restores_when_active : bool := %s.\n" % ("true" if guarded else "false"))
        status["threads:gil_release"] = "ok"
    except (OSError, ValueError) as e:
        out.append("(* TRANSLATION FAILED for gil_release: %s *)\n" % e)
        status["threads:gil_release"] = "FAILED: %s" % e
    try:
        writes, inits, mutated = py_inventory(repo)
        out.append("Definition py_global_writes : list (string * string * string) :=\n  [%s].\n" % "; ".join("(%s, %s, %s)" % tuple(cstr(x) for x in w) for w in writes))
        out.append("Definition py_global_inits_complete_before_publish : list (string * bool) :=\n  [%s].\n" % "; ".join("(%s, %s)" % (cstr(m + "." + f + ":" + g), "true" if ok else "false") for m, f, g, ok in inits))
        out.append("Definition py_mutated_containers : list (string * string * string) :=\n  [%s].\n" % "; ".join("(%s, %s, %s)" % tuple(cstr(x) for x in w) for w in mutated))
        status["threads:py_inventory"] = "ok"
    except (OSError, SyntaxError) as e:
        out.append("(* TRANSLATION FAILED for the Python inventory: %s *)\n" % e)
        status["threads:py_inventory"] = "FAILED: %s" % e
    return "".join(out), status


if __name__ == "__main__":
    import sys
    t, st = generate(sys.argv[1] if len(sys.argv) > 1 else "/repo")
    sys.stdout.write(t)
    sys.stderr.write(repr(st) + "\n")
