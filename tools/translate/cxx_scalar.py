"""Fail-closed translator from a small subset of C++ (scalar functions) to Gallina over Z.

Accepted: typed local declarations, assignments (=, +=, -=), if/else, switch/case with
return-terminated cases, return, ?:, || && !, comparisons, + - * / %, unary -, casts,
calls to __max/__min, integer literals, identifiers.  Everything else raises
TranslateError: the caller then emits no definition and the proof obligation breaks.

Semantics chosen (recorded in the trusted base):
  * all integers are unbounded Z; `/` is Z.quot and `%` is Z.rem (C truncation);
  * a value stored into a variable of the template type T is converted with `wrap ty`;
    `int`/`npy_intp`/`index_type` locals are NOT wrapped (sizes < 2^31 assumed);
  * `(int)(e)` and other integer casts are the identity;
  * conditions are Coq bools; an integer used as a condition means `<> 0`.
"""
import re


class TranslateError(Exception):
    pass


TOKEN_RE = re.compile(r"""
    (?P<ws>\s+|//[^\n]*|/\*.*?\*/)
  | (?P<num>\d+[uUlL]*)
  | (?P<id>[A-Za-z_][A-Za-z_0-9]*)
  | (?P<op>\+\+|--|\+=|-=|\*=|/=|==|!=|<=|>=|&&|\|\||<<|>>|[-+*/%<>=!?:;,(){}\[\]&|~^.])
""", re.X | re.S)

INT_TYPES = {"int", "npy_intp", "long", "unsigned", "bool", "index_type", "size_t", "npy_int64",
             "npy_uint64", "npy_uint32", "npy_int32", "char", "short"}


def preprocess(src, tparam="T"):
    s = src
    s = re.sub(r"std::numeric_limits<\s*%s\s*>::min\(\)" % tparam, "__TMIN", s)
    s = re.sub(r"std::numeric_limits<\s*%s\s*>::max\(\)" % tparam, "__TMAX", s)
    s = re.sub(r"std::numeric_limits<\s*%s\s*>::is_signed" % tparam, "__SIGNED", s)
    s = re.sub(r"std::max<\s*[\w:]+\s*>\(", "__max(", s)
    s = re.sub(r"std::min<\s*[\w:]+\s*>\(", "__min(", s)
    s = re.sub(r"std::max\(", "__max(", s)
    s = re.sub(r"std::min\(", "__min(", s)
    s = re.sub(r"\b%s\(\s*0?\s*\)" % tparam, "0", s)
    s = s.replace("numpy::index_type", "index_type")
    s = s.replace("typename ", "")
    return s


def tokenize(src):
    pos = 0
    toks = []
    while pos < len(src):
        m = TOKEN_RE.match(src, pos)
        if not m:
            raise TranslateError("cannot tokenize at: %r" % src[pos:pos + 30])
        pos = m.end()
        if m.lastgroup == "ws":
            continue
        toks.append((m.lastgroup, m.group(m.lastgroup)))
    return toks


class Parser:
    def __init__(self, toks, tparam="T"):
        self.t = toks
        self.i = 0
        self.tparam = tparam

    def peek(self, k=0):
        return self.t[self.i + k] if self.i + k < len(self.t) else ("eof", "")

    def next(self):
        tok = self.peek()
        self.i += 1
        return tok

    def accept(self, val):
        if self.peek()[1] == val:
            self.i += 1
            return True
        return False

    def expect(self, val):
        if not self.accept(val):
            raise TranslateError("expected %r, got %r" % (val, self.peek()))

    # ---------- statements ----------
    def is_type_start(self):
        k, v = self.peek()
        if k != "id":
            return False
        if v == "const":
            return True
        return (v in INT_TYPES or v == self.tparam) and self.peek(1)[0] == "id"

    def parse_block(self):
        self.expect("{")
        stmts = []
        while not self.accept("}"):
            stmts.append(self.parse_stmt())
        return stmts

    def parse_stmt(self):
        k, v = self.peek()
        if v == "{":
            return ("block", self.parse_block())
        if v == ";":
            self.next()
            return ("block", [])
        if v == "if":
            self.next()
            self.expect("(")
            c = self.parse_expr()
            self.expect(")")
            a = self.parse_stmt()
            b = ("block", [])
            if self.accept("else"):
                b = self.parse_stmt()
            return ("if", c, a, b)
        if v == "switch":
            self.next()
            self.expect("(")
            e = self.parse_expr()
            self.expect(")")
            self.expect("{")
            cases = []
            while not self.accept("}"):
                labels = []
                while self.peek()[1] in ("case", "default"):
                    if self.next()[1] == "case":
                        labels.append(self.parse_expr_noternary())
                    else:
                        labels.append(None)
                    self.expect(":")
                if not labels:
                    raise TranslateError("statement outside case in switch")
                body = []
                while self.peek()[1] not in ("case", "default", "}"):
                    body.append(self.parse_stmt())
                cases.append((labels, body))
            return ("switch", e, cases)
        if v == "return":
            self.next()
            e = self.parse_expr()
            self.expect(";")
            return ("return", e)
        if v == "assert":
            self.next()
            self.expect("(")
            depth = 1
            while depth:
                tk = self.next()
                if tk[0] == "eof":
                    raise TranslateError("unterminated assert")
                if tk[1] == "(":
                    depth += 1
                elif tk[1] == ")":
                    depth -= 1
            self.expect(";")
            return ("block", [])
        if v in ("for", "while", "do", "goto", "break", "continue", "throw", "try"):
            raise TranslateError("unsupported statement %r" % v)
        if self.is_type_start():
            ty = []
            while self.peek()[0] == "id" and (self.peek()[1] in INT_TYPES or self.peek()[1] in ("const", self.tparam)) \
                    and not (self.peek(1)[1] in ("=", ";")):
                ty.append(self.next()[1])
            name = self.next()
            if name[0] != "id":
                raise TranslateError("bad declaration")
            self.expect("=")
            e = self.parse_expr()
            self.expect(";")
            return ("decl", [t for t in ty if t != "const"], name[1], e)
        # assignment
        if k == "id" and self.peek(1)[1] in ("=", "+=", "-=", "*="):
            name = self.next()[1]
            op = self.next()[1]
            e = self.parse_expr()
            self.expect(";")
            if op != "=":
                e = ("bin", op[0], ("var", name), e)
            return ("assign", name, e)
        raise TranslateError("unsupported statement starting with %r" % (self.peek(),))

    # ---------- expressions ----------
    def parse_expr(self):
        c = self.parse_or()
        if self.accept("?"):
            a = self.parse_expr()
            self.expect(":")
            b = self.parse_expr()
            return ("cond", c, a, b)
        return c

    def parse_expr_noternary(self):
        return self.parse_or()

    def parse_or(self):
        e = self.parse_and()
        while self.accept("||"):
            e = ("or", e, self.parse_and())
        return e

    def parse_and(self):
        e = self.parse_cmp()
        while self.accept("&&"):
            e = ("and", e, self.parse_cmp())
        return e

    def parse_cmp(self):
        e = self.parse_add()
        while self.peek()[1] in ("==", "!=", "<", ">", "<=", ">="):
            op = self.next()[1]
            e = ("cmp", op, e, self.parse_add())
        return e

    def parse_add(self):
        e = self.parse_mul()
        while self.peek()[1] in ("+", "-"):
            op = self.next()[1]
            e = ("bin", op, e, self.parse_mul())
        return e

    def parse_mul(self):
        e = self.parse_unary()
        while self.peek()[1] in ("*", "/", "%"):
            op = self.next()[1]
            e = ("bin", op, e, self.parse_unary())
        return e

    def parse_unary(self):
        if self.accept("-"):
            return ("neg", self.parse_unary())
        if self.accept("!"):
            return ("not", self.parse_unary())
        if self.accept("+"):
            return self.parse_unary()
        # cast: ( type ) unary
        if self.peek()[1] == "(" and self.peek(1)[0] == "id" and \
                (self.peek(1)[1] in INT_TYPES or self.peek(1)[1] == self.tparam) and self.peek(2)[1] == ")":
            self.next()
            ty = self.next()[1]
            self.next()
            e = self.parse_unary()
            return ("cast", ty, e)
        return self.parse_primary()

    def parse_primary(self):
        k, v = self.next()
        if k == "num":
            return ("num", int(re.sub(r"[uUlL]", "", v)))
        if v == "(":
            e = self.parse_expr()
            self.expect(")")
            return e
        if k == "id":
            if v in ("true", "false"):
                return ("boollit", v == "true")
            if self.peek()[1] == "(":
                # call or functional cast
                self.next()
                args = []
                if not self.accept(")"):
                    args.append(self.parse_expr())
                    while self.accept(","):
                        args.append(self.parse_expr())
                    self.expect(")")
                if v in INT_TYPES or v == self.tparam:
                    if len(args) != 1:
                        raise TranslateError("bad functional cast")
                    return ("cast", v, args[0])
                return ("call", v, args)
            return ("var", v)
        raise TranslateError("unexpected token %r" % ((k, v),))


class Emitter:
    """Turns the AST into a Gallina term.  `env` maps variable name -> 'T' | 'int' | 'bool'."""

    def __init__(self, env, tparam_var="ty", consts=(), calls=None, ret="int"):
        self.env = dict(env)
        self.ty = tparam_var
        self.consts = set(consts)
        self.calls = calls or {}
        self.ret = ret

    # expression -> (text, kind) where kind in {'int','bool'}
    def expr(self, e):
        tag = e[0]
        if tag == "num":
            return (str(e[1]), "int")
        if tag == "boollit":
            return ("true" if e[1] else "false", "bool")
        if tag == "var":
            n = e[1]
            if n == "__TMIN":
                return ("(tmin %s)" % self.ty, "int")
            if n == "__TMAX":
                return ("(tmax %s)" % self.ty, "int")
            if n == "__SIGNED":
                return ("(signed %s)" % self.ty, "bool")
            if n in self.env:
                return (n, "bool" if self.env[n] == "cbool" else "int")
            if n in self.consts:
                return (n, "int")
            raise TranslateError("unknown identifier %r" % n)
        if tag == "neg":
            return ("(- %s)" % self.int(e[1]), "int")
        if tag == "not":
            return ("(negb %s)" % self.bool(e[1]), "bool")
        if tag == "cast":
            if e[1] == self.tparam_name():
                return ("(wrap %s %s)" % (self.ty, self.int(e[2])), "int")
            return (self.int(e[2]), "int")
        if tag == "bin":
            op = e[1]
            a, b = self.int(e[2]), self.int(e[3])
            if op == "/":
                return ("(Z.quot %s %s)" % (a, b), "int")
            if op == "%":
                return ("(Z.rem %s %s)" % (a, b), "int")
            return ("(%s %s %s)" % (a, op, b), "int")
        if tag == "cmp":
            op = {"==": "=?", "<": "<?", "<=": "<=?", ">": ">?", ">=": ">=?"}.get(e[1])
            a, b = self.int(e[2]), self.int(e[3])
            if e[1] == "!=":
                return ("(negb (%s =? %s))" % (a, b), "bool")
            return ("(%s %s %s)" % (a, op, b), "bool")
        if tag == "and":
            return ("(%s && %s)" % (self.bool(e[1]), self.bool(e[2])), "bool")
        if tag == "or":
            return ("(%s || %s)" % (self.bool(e[1]), self.bool(e[2])), "bool")
        if tag == "cond":
            a, ka = self.expr(e[2])
            b, kb = self.expr(e[3])
            if ka != kb:
                a, b = self.int(e[2]), self.int(e[3])
                ka = "int"
            return ("(if %s then %s else %s)" % (self.bool(e[1]), a, b), ka)
        if tag == "call":
            if e[1] == "__max" and len(e[2]) == 2:
                return ("(Z.max %s %s)" % (self.int(e[2][0]), self.int(e[2][1])), "int")
            if e[1] == "__min" and len(e[2]) == 2:
                return ("(Z.min %s %s)" % (self.int(e[2][0]), self.int(e[2][1])), "int")
            if e[1] in self.calls:
                name, kind = self.calls[e[1]]
                return ("(%s %s)" % (name, " ".join(self.int(a) for a in e[2])), kind)
            raise TranslateError("unknown call %r" % e[1])
        raise TranslateError("unknown expression node %r" % (tag,))

    def tparam_name(self):
        return "T"

    def int(self, e):
        t, k = self.expr(e)
        return t if k == "int" else "(if %s then 1 else 0)" % t

    def bool(self, e):
        t, k = self.expr(e)
        return t if k == "bool" else "(negb (%s =? 0))" % t

    def stmts(self, ss):
        """ss: flat list of statements; returns Gallina term."""
        if not ss:
            raise TranslateError("control reaches end of function without return")
        s, rest = ss[0], ss[1:]
        tag = s[0]
        if tag == "block":
            return self.stmts(list(s[1]) + rest)
        if tag == "return":
            return self.int(s[1]) if self.ret == "int" else self.bool(s[1])
        if tag == "decl":
            tys, name, e = s[1], s[2], s[3]
            saved = dict(self.env)
            if "T" in tys:
                val = "(wrap %s %s)" % (self.ty, self.int(e))
                kind = "T"
            elif tys == ["bool"]:
                val = self.bool(e)
                kind = "cbool"
            else:
                val = self.int(e)
                kind = "int"
            self.env[name] = kind
            body = self.stmts(rest)
            self.env = saved
            return "(let %s := %s in\n %s)" % (name, val, body)
        if tag == "assign":
            name, e = s[1], s[2]
            if name not in self.env:
                raise TranslateError("assignment to unknown variable %r" % name)
            kind = self.env[name]
            if kind == "T":
                val = "(wrap %s %s)" % (self.ty, self.int(e))
            elif kind == "cbool":
                val = self.bool(e)
            else:
                val = self.int(e)
            return "(let %s := %s in\n %s)" % (name, val, self.stmts(rest))
        if tag == "if":
            c = self.bool(s[1])
            saved = dict(self.env)
            a = self.stmts([s[2]] + rest)
            self.env = dict(saved)
            b = self.stmts([s[3]] + rest)
            self.env = saved
            return "(if %s then\n %s\n else\n %s)" % (c, a, b)
        if tag == "switch":
            scrut = self.int(s[1])
            out = None
            default = None
            arms = []
            for labels, body in s[2]:
                saved = dict(self.env)
                term = self.stmts(body + [("__nofall",)])
                self.env = saved
                conds = []
                for lab in labels:
                    if lab is None:
                        default = term
                    else:
                        conds.append("(%s =? %s)" % (scrut, self.int(lab)))
                if conds:
                    arms.append((" || ".join(conds), term))
            tail = default if default is not None else self.stmts(rest)
            out = tail
            for cond, term in reversed(arms):
                out = "(if %s then\n %s\n else\n %s)" % (cond, term, out)
            return out
        if tag == "__nofall":
            raise TranslateError("switch case falls through / does not return")
        raise TranslateError("unknown statement %r" % (tag,))


def find_function(src, header_re):
    """Return (params_text, body_text) of the first function whose header matches header_re
    (a regex that must end just before the opening parenthesis of the parameter list)."""
    m = re.search(header_re + r"\s*\(", src)
    if not m:
        raise TranslateError("function not found: %s" % header_re)
    i = m.end()
    depth = 1
    j = i
    while depth:
        if j >= len(src):
            raise TranslateError("unbalanced parameter list")
        if src[j] == "(":
            depth += 1
        elif src[j] == ")":
            depth -= 1
        j += 1
    params = src[i:j - 1]
    k = src.index("{", j)
    if src[j:k].strip() not in ("", "const"):
        raise TranslateError("unexpected text between ) and {: %r" % src[j:k])
    depth = 1
    e = k + 1
    while depth:
        if e >= len(src):
            raise TranslateError("unbalanced body")
        if src[e] == "{":
            depth += 1
        elif src[e] == "}":
            depth -= 1
        e += 1
    return params, src[k:e]


def parse_params(params):
    out = []
    for p in params.split(","):
        toks = [t for t in re.findall(r"[A-Za-z_][A-Za-z_0-9:]*", p) if t not in ("const",)]
        if len(toks) < 2:
            raise TranslateError("cannot parse parameter %r" % p)
        out.append((toks[-2].split("::")[-1], toks[-1]))
    return out


def translate_function(src, header_re, coq_name, consts=(), generic=False, ret="int",
                       param_override=None, body_override=None, extra_env=None):
    """Translate one function.  generic=True adds a leading `(ty : ity)` parameter."""
    params_text, body = find_function(src, header_re)
    if body_override is not None:
        body = body_override(body)
    params = param_override if param_override is not None else parse_params(params_text)
    env = {}
    for ty, name in params:
        env[name] = "T" if ty == "T" else "int"
    if extra_env:
        env.update(extra_env)
    toks = tokenize(preprocess(body))
    p = Parser(toks)
    block = p.parse_block()
    if p.peek()[0] != "eof":
        raise TranslateError("trailing tokens after function body")
    em = Emitter(env, consts=consts, ret=ret)
    term = em.stmts(block)
    args = " ".join(name for _, name in params)
    rty = "Z" if ret == "int" else "bool"
    head = "Definition %s %s(%s : Z) : %s :=\n" % (coq_name, "(ty : ity) " if generic else "", args, rty)
    return head + " " + term + ".\n"


def parse_enum(src, enum_name):
    m = re.search(r"typedef\s+enum\s*\{([^}]*)\}\s*%s\s*;" % enum_name, src, re.S)
    if not m:
        raise TranslateError("enum %s not found" % enum_name)
    vals = []
    nxt = 0
    for item in m.group(1).split(","):
        item = re.sub(r"/\*.*?\*/|//[^\n]*", "", item, flags=re.S).strip()
        if not item:
            continue
        if "=" in item:
            n, v = item.split("=")
            nxt = int(v.strip())
            vals.append((n.strip(), nxt))
        else:
            vals.append((item, nxt))
        nxt += 1
    return vals
