"""Fail-closed translator from straight-line numpy element-wise Python (a run of statements inside a function)
to a Gallina function over Q acting on ONE element.

Accepted statements: `x = e`, `x += e`, `x -= e`, `x *= e`, `return e`.
Accepted expressions: names, int/float literals (floats with an exact decimal expansion), + - * / unary -,
comparisons < > <= >= (bool), `np.abs(e)`, `np.choose(c, (a, b))` -> `if c then b else a` (orientation preserved),
a bool used in arithmetic -> 0/1, `np.minimum/np.maximum`.  Anything else raises TranslateError.
"""
import ast
from fractions import Fraction


class TranslateError(Exception):
    pass


def q_lit(v):
    fr = Fraction(str(v)) if isinstance(v, float) else Fraction(v)
    if fr.denominator == 1:
        return "(inject_Z (%d))" % fr.numerator
    return "(Qmake (%d) %d)" % (fr.numerator, fr.denominator)


def r_lit(v):
    fr = Fraction(str(v)) if isinstance(v, float) else Fraction(v)
    if fr.denominator == 1:
        return "(IZR (%d))" % fr.numerator
    return "(IZR (%d) / IZR (%d))" % (fr.numerator, fr.denominator)


DOMS = {
    "Q": {"lit": q_lit, "add": "Qplus", "sub": "Qminus", "mul": "Qmult", "div": "Qdiv", "opp": "Qopp", "abs": "Qabs",
          "min": "Qmin", "max": "Qmax", "lt": lambda a, b: "(qltb %s %s)" % (a, b), "le": lambda a, b: "(negb (qltb %s %s))" % (b, a),
          "pow": None, "one": "1", "zero": "0"},
    "R": {"lit": r_lit, "add": "Rplus", "sub": "Rminus", "mul": "Rmult", "div": "Rdiv", "opp": "Ropp", "abs": "Rabs",
          "min": "Rmin", "max": "Rmax", "lt": lambda a, b: "(rltb %s %s)" % (a, b), "le": lambda a, b: "(rleb %s %s)" % (a, b),
          "pow": "Rpower", "one": "1", "zero": "0"},
}


class Tr:
    def __init__(self, boolnames=(), dom="Q", funcs=()):
        self.kinds = {}          # variable -> 'q' | 'b'
        for b in boolnames:
            self.kinds[b] = "b"
        self.d = DOMS[dom]
        self.funcs = dict(funcs)  # python local function name -> Coq name

    def expr(self, e):
        """returns (coq_text, kind)"""
        if isinstance(e, ast.Name):
            return e.id, self.kinds.get(e.id, "q")
        if isinstance(e, ast.Constant) and isinstance(e.value, (int, float)) and not isinstance(e.value, bool):
            return self.d["lit"](e.value), "q"
        if isinstance(e, ast.UnaryOp) and isinstance(e.op, ast.USub):
            t, k = self.expr(e.operand)
            return "(%s %s)" % (self.d["opp"], self.num(t, k)), "q"
        if isinstance(e, ast.BinOp):
            if isinstance(e.op, ast.Pow):
                if not self.d["pow"]:
                    raise TranslateError("power in this domain")
                a, ka = self.expr(e.left)
                b, kb = self.expr(e.right)
                return "(%s %s %s)" % (self.d["pow"], self.num(a, ka), self.num(b, kb)), "q"
            if isinstance(e.op, ast.BitAnd):
                a, ka = self.expr(e.left)
                b, kb = self.expr(e.right)
                if ka != "b" or kb != "b":
                    raise TranslateError("& of non-boolean operands")
                return "(%s && %s)" % (a, b), "b"
            ops = {ast.Add: self.d["add"], ast.Sub: self.d["sub"], ast.Mult: self.d["mul"], ast.Div: self.d["div"]}
            for cls, name in ops.items():
                if isinstance(e.op, cls):
                    a, ka = self.expr(e.left)
                    b, kb = self.expr(e.right)
                    return "(%s %s %s)" % (name, self.num(a, ka), self.num(b, kb)), "q"
            raise TranslateError("operator " + type(e.op).__name__)
        if isinstance(e, ast.Compare) and len(e.ops) == 1:
            a, ka = self.expr(e.left)
            b, kb = self.expr(e.comparators[0])
            a, b = self.num(a, ka), self.num(b, kb)
            op = e.ops[0]
            if isinstance(op, ast.Lt):
                return self.d["lt"](a, b), "b"
            if isinstance(op, ast.Gt):
                return self.d["lt"](b, a), "b"
            if isinstance(op, ast.LtE):
                return self.d["le"](a, b), "b"
            if isinstance(op, ast.GtE):
                return self.d["le"](b, a), "b"
            raise TranslateError("comparison " + type(op).__name__)
        if isinstance(e, ast.Subscript) and isinstance(e.value, ast.Name) and isinstance(e.slice, ast.Name):
            # x[mask] on the right-hand side of `r[mask] = ...`: the element itself (the statement is about the selected elements)
            if getattr(self, "mask", None) != e.slice.id:
                raise TranslateError("subscript outside a masked assignment with the same mask")
            return e.value.id, self.kinds.get(e.value.id, "q")
        if isinstance(e, ast.Call):
            fn = ast.unparse(e.func)
            if fn == "np.asanyarray" and len(e.args) == 1 and not e.keywords:
                return self.expr(e.args[0])          # conversion to an array: the element is unchanged
            if fn == "np.zeros_like" and len(e.args) == 1 and not e.keywords:
                return self.d["lit"](0), "q"
            if fn in ("np.abs", "abs") and len(e.args) == 1:
                t, k = self.expr(e.args[0])
                return "(%s %s)" % (self.d["abs"], self.num(t, k)), "q"
            if fn == "np.choose" and len(e.args) == 2 and isinstance(e.args[1], (ast.Tuple, ast.List)) and len(e.args[1].elts) == 2:
                c, kc = self.expr(e.args[0])
                if kc != "b":
                    raise TranslateError("np.choose selector is not a comparison")
                a, ka = self.expr(e.args[1].elts[0])
                b, kb = self.expr(e.args[1].elts[1])
                if ka != kb:
                    raise TranslateError("np.choose branches of different kinds")
                return "(if %s then %s else %s)" % (c, b, a), ka      # index 1 (True) selects the SECOND entry
            if fn in ("np.minimum", "np.maximum") and len(e.args) == 2:
                a, ka = self.expr(e.args[0])
                b, kb = self.expr(e.args[1])
                return "(%s %s %s)" % (self.d["min"] if fn.endswith("minimum") else self.d["max"], self.num(a, ka), self.num(b, kb)), "q"
            if fn == "np.power" and len(e.args) == 2 and self.d["pow"]:
                a, ka = self.expr(e.args[0])
                b, kb = self.expr(e.args[1])
                return "(%s %s %s)" % (self.d["pow"], self.num(a, ka), self.num(b, kb)), "q"
            if fn in self.funcs and len(e.args) == 1:
                a, ka = self.expr(e.args[0])
                return "(%s %s)" % (self.funcs[fn], self.num(a, ka)), "q"
            raise TranslateError("call " + fn)
        raise TranslateError("expression " + type(e).__name__)

    @staticmethod
    def num(t, k):
        return t if k == "q" else "(if %s then 1 else 0)" % t

    def block(self, stmts, result=None):
        """list of ast statements ending in Return (or, with `result`, at the assignment to that name) -> nested lets"""
        out = []
        for s in stmts:
            if result and isinstance(s, ast.Return):
                out.append(result)
                return "\n  ".join(out), self.kinds.get(result, "q")
            if isinstance(s, ast.Assign) and len(s.targets) == 1 and isinstance(s.targets[0], ast.Name):
                t, k = self.expr(s.value)
                self.kinds[s.targets[0].id] = k
                out.append("let %s := %s in" % (s.targets[0].id, t))
            elif (isinstance(s, ast.Assign) and len(s.targets) == 1 and isinstance(s.targets[0], ast.Subscript)
                  and isinstance(s.targets[0].value, ast.Name) and isinstance(s.targets[0].slice, ast.Name)
                  and self.kinds.get(s.targets[0].slice.id) == "b"):
                # r[mask] = e  (boolean-mask assignment): the selected elements get e, the others keep their value
                r, m = s.targets[0].value.id, s.targets[0].slice.id
                if r not in self.kinds:
                    raise TranslateError("masked assignment to an unknown array")
                self.mask = m
                try:
                    t, k = self.expr(s.value)
                finally:
                    self.mask = None
                out.append("let %s := (if %s then %s else %s) in" % (r, m, self.num(t, k), self.num(r, self.kinds[r])))
                self.kinds[r] = "q"
            elif isinstance(s, ast.AugAssign) and isinstance(s.target, ast.Name):
                ops = {ast.Add: self.d["add"], ast.Sub: self.d["sub"], ast.Mult: self.d["mul"]}
                name = next((n for c, n in ops.items() if isinstance(s.op, c)), None)
                if name is None:
                    raise TranslateError("augmented operator")
                t, k = self.expr(s.value)
                v = s.target.id
                out.append("let %s := (%s %s %s) in" % (v, name, self.num(v, self.kinds.get(v, "q")), self.num(t, k)))
                self.kinds[v] = "q"
            elif isinstance(s, ast.Return):
                t, k = self.expr(s.value)
                out.append(t)
                return "\n  ".join(out), k
            else:
                raise TranslateError("statement " + type(s).__name__)
        raise TranslateError("no return")


def function_tail(src, fname, first_target):
    """statements of function `fname` from the first assignment to `first_target` (or the first AugAssign/Return)"""
    tree = ast.parse(src)
    for node in ast.walk(tree):
        if isinstance(node, ast.FunctionDef) and node.name == fname:
            body = node.body
            for i, s in enumerate(body):
                if isinstance(s, ast.Assign) and isinstance(s.targets[0], ast.Name) and s.targets[0].id == first_target:
                    return body[i:]
            raise TranslateError("no assignment to %s in %s" % (first_target, fname))
    raise TranslateError("function %s not found" % fname)
