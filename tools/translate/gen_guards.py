"""Regenerates coq/Gen/Guards_gen.v: the argument guards of every native entry point (py_* functions of the C++ modules)
and the conditions under which the public Python wrappers raise.

Native part.  For every `PyObject* py_X(PyObject* self, PyObject* args)` the statements of the function body are scanned up
to the kernel dispatch; every top-level `if (COND) { ... return NULL / goto exit ... }` is a rejection test.  COND is split at
its top-level `||` into atoms and each atom is translated into a boolean over argument descriptors (MV.Base.Desc):
array-ness, shape, rank, type class and contiguity.  An atom outside the vocabulary becomes an opaque boolean `unk k`
(sound for the theorems, which only use `rejects = false`: dropping knowledge about an atom can only make them harder).
Emitted:  Definition rejects_py_X (<args> : desc | Z) (unk : nat -> bool) : bool.

Python part.  For every public function of the listed modules: the source text of each `if TEST: raise ...` reachable at the
top level of the function body (and the names of the checking helpers it calls), as a list of strings
`py_raises : list (string * list string)`; Proof/GuardsProof.v proves by evaluation that the tests the kernels rely on are
present.
"""
import ast
import os
import re


class TranslateError(Exception):
    pass


MODULES = ["_bbox", "_center_of_mass", "_convolve", "_distance", "_histogram", "_interpolate", "_labeled", "_morph", "_thin",
           "features/_lbp", "features/_surf", "features/_texture", "features/_zernike"]
PYMODS = ["morph", "convolve", "distance", "segmentation", "labeled", "interpolate", "thin", "thresholding", "bbox",
          "center_of_mass", "resize", "features/texture", "features/lbp", "features/zernike", "features/surf", "internal"]

TYPES = {"bool": "NPY_BOOL", "int": "NPY_INT", "npy_int32": "NPY_INT", "npy_int64": "NPY_LONG", "double": "NPY_DOUBLE",
         "npy_float32": "NPY_FLOAT", "float": "NPY_FLOAT", "npy_uint32": "NPY_UINT"}
TCODES = {"NPY_BOOL": 0, "NPY_INT": 5, "NPY_UINT": 6, "NPY_LONG": 7, "NPY_FLOAT": 11, "NPY_DOUBLE": 12, "NPY_CDOUBLE": 15,
          "NPY_INT32": 5, "NPY_UINT32": 6}


def balanced(s, i, open_="(", close=")"):
    """s[i] == open_; returns index just past the matching close"""
    depth = 0
    j = i
    while j < len(s):
        c = s[j]
        if c == open_:
            depth += 1
        elif c == close:
            depth -= 1
            if depth == 0:
                return j + 1
        elif c == '"':
            j += 1
            while s[j] != '"':
                j += 2 if s[j] == "\\" else 1
        j += 1
    raise TranslateError("unbalanced")


def strip_comments(s):
    s = re.sub(r"//[^\n]*", "", s)
    return re.sub(r"/\*.*?\*/", "", s, flags=re.S)


def split_top(cond, sep="||"):
    parts, depth, cur, i = [], 0, "", 0
    while i < len(cond):
        c = cond[i]
        if c in "(<[" and not (c == "<" and not re.search(r"(check_type|cast)\s*$", cond[:i])):
            depth += 1
        elif c in ")>]" and not (c == ">" and depth == 0):
            if c != ">" or re.search(r"<[\w\s:]*$", cur):
                depth -= 1
        if depth == 0 and cond.startswith(sep, i):
            parts.append(cur.strip())
            cur = ""
            i += len(sep)
            continue
        cur += c
        i += 1
    parts.append(cur.strip())
    return parts


def top_level_ifs(body):
    """yields (cond, block_text, preceded_by_else) for the `if`s at nesting depth 0 of body"""
    i, depth = 0, 0
    prev_else = False
    while i < len(body):
        c = body[i]
        if c == "{":
            depth += 1
        elif c == "}":
            depth -= 1
        elif c == '"':
            i = balanced(body, i, '"', '"') if False else body.index('"', i + 1)
        elif depth == 0 and re.match(r"if\s*\(", body[i:]) and (i == 0 or not (body[i - 1].isalnum() or body[i - 1] == "_")):
            m = re.match(r"if\s*", body[i:])
            j = i + m.end()
            k = balanced(body, j)
            cond = body[j + 1:k - 1]
            rest = body[k:].lstrip()
            off = len(body) - len(body[k:].lstrip()) if False else k + (len(body[k:]) - len(rest))
            if rest.startswith("{"):
                e = balanced(body, off, "{", "}")
                block = body[off:e]
            else:
                e = body.index(";", off) + 1
                block = body[off:e]
            before = body[:i].rstrip()
            yield cond, block, before.endswith("else")
            # an `else` chain after a rejecting block cannot be reached by accepted calls; others are skipped below
            i = e
            continue
        i += 1


def parse_args(fmt_call):
    m = re.search(r'PyArg_ParseTuple\s*\(\s*args\s*,\s*"([^"]*)"\s*((?:,\s*&\w+\s*)*)\)', fmt_call)
    if not m:
        return None
    fmt = m.group(1)
    names = re.findall(r"&(\w+)", m.group(2))
    if len(fmt) != len(names):
        raise TranslateError("format %r does not match %d names" % (fmt, len(names)))
    return list(zip(names, fmt))


class AtomTr:
    def __init__(self, params):
        self.params = dict(params)      # name -> fmt char
        self.unk = 0

    def arr(self, n):
        n = n.strip()
        n = re.sub(r"^\(PyArrayObject\*\)\s*", "", n)
        n = re.sub(r"^reinterpret_cast<PyArrayObject\*>\((\w+)\)$", r"\1", n)
        if self.params.get(n) != "O":
            raise KeyError(n)
        return "a_" + n

    def scalar(self, n):
        n = n.strip()
        if re.fullmatch(r"-?\d+", n):
            return "(%s)" % n
        if self.params.get(n) in ("i", "L", "l", "n"):
            return "z_" + n
        raise KeyError(n)

    def ndim_or_dim_or_scalar(self, t):
        t = t.strip()
        m = re.fullmatch(r"PyArray_NDIM\((\w+)\)", t)
        if m:
            return "ndim %s" % self.arr(m.group(1))
        m = re.fullmatch(r"PyArray_DIM\((\w+),\s*(\d+)\)", t)
        if m:
            return "dimZ %s %s" % (self.arr(m.group(1)), m.group(2))
        m = re.fullmatch(r"PyArray_TYPE\((\w+)\)", t)
        if m:
            return "d_type %s" % self.arr(m.group(1))
        m = re.fullmatch(r"PyArray_SIZE\((\w+)\)", t)
        if m:
            return "sizeZ %s" % self.arr(m.group(1))
        m = re.fullmatch(r"(.+)\*\s*(\d+)", t)
        if m:
            return "(%s * %s)" % (self.ndim_or_dim_or_scalar(m.group(1)), m.group(2))
        if t == "NPY_MAXDIMS":
            return "NPY_MAXDIMS"
        if t in TCODES:
            return "(%d)" % TCODES[t]
        return self.scalar(t)

    def atom(self, a):
        """returns a Coq bool expression that is true when the atom asks for rejection"""
        a = " ".join(a.split())
        try:
            m = re.fullmatch(r"!numpy::are_arrays\(([^()]*)\)", a)
            if m:
                return "negb (%s)" % " && ".join("d_arr %s" % self.arr(x) for x in m.group(1).split(","))
            m = re.fullmatch(r"(?:reinterpret_cast<PyObject\*>\()?(\w+)\)? (!=|==) Py_None", a)
            if m:
                e = "d_none %s" % self.arr(m.group(1))
                return e if m.group(2) == "==" else "negb (%s)" % e
            m = re.fullmatch(r"!PyArray_Check\((\w+)\)", a)
            if m:
                return "negb (d_arr %s)" % self.arr(m.group(1))
            m = re.fullmatch(r"!numpy::same_shape\((\w+),\s*(\w+)\)", a)
            if m:
                return "negb (shape_eqb %s %s)" % (self.arr(m.group(1)), self.arr(m.group(2)))
            m = re.fullmatch(r"!numpy::equiv_typenums\(([^()]*)\)", a)
            if m:
                xs = [self.arr(x) for x in m.group(1).split(",")]
                return "negb (%s)" % " && ".join("(d_type %s =? d_type %s)" % (xs[i], xs[i + 1]) for i in range(len(xs) - 1))
            m = re.fullmatch(r"!PyArray_EquivTypenums\(PyArray_TYPE\((\w+)\),\s*PyArray_TYPE\((\w+)\)\)", a)
            if m:
                return "negb (d_type %s =? d_type %s)" % (self.arr(m.group(1)), self.arr(m.group(2)))
            m = re.fullmatch(r"!PyArray_EquivTypenums\((NPY_\w+),\s*PyArray_TYPE\((\w+)\)\)", a) or \
                re.fullmatch(r"!PyArray_EquivTypenums\(PyArray_TYPE\((\w+)\),\s*(NPY_\w+)\)", a)
            if m:
                g = m.groups()
                code, name = (g[0], g[1]) if g[0].startswith("NPY_") else (g[1], g[0])
                return "negb (d_type %s =? %d)" % (self.arr(name), TCODES[code])
            m = re.fullmatch(r"!numpy::check_type<\s*([\w ]+?)\s*>\((\w+)\)", a)
            if m:
                return "negb (d_type %s =? %d)" % (self.arr(m.group(2)), TCODES[TYPES[m.group(1)]])
            m = re.fullmatch(r"!(?:PyArray_ISCARRAY|numpy::is_carray)\((\w+)\)", a)
            if m:
                return "negb (d_carray %s)" % self.arr(m.group(1))
            m = re.fullmatch(r"!PyArray_ISCARRAY_RO\((\w+)\)", a)
            if m:
                return "negb (d_carray_ro %s)" % self.arr(m.group(1))
            m = re.fullmatch(r"!PyArray_ISCONTIGUOUS\((\w+)\)", a)
            if m:
                return "negb (d_contig %s)" % self.arr(m.group(1))
            m = re.fullmatch(r"(.+?)\s*(!=|<=|>=|<|>|==)\s*(.+)", a)
            if m and "(" not in m.group(1).replace("PyArray_NDIM(", "").replace("PyArray_DIM(", "").replace("PyArray_TYPE(", "").replace("PyArray_SIZE(", ""):
                l = self.ndim_or_dim_or_scalar(m.group(1))
                r = self.ndim_or_dim_or_scalar(m.group(3))
                op = m.group(2)
                return {"!=": "negb (%s =? %s)", "==": "(%s =? %s)", "<": "(%s <? %s)", "<=": "(%s <=? %s)",
                        ">": "(%s >? %s)", ">=": "(%s >=? %s)"}[op] % (l, r)
        except KeyError:
            pass
        k = self.unk
        self.unk += 1
        return "unk %d%%nat (* %s *)" % (k, a.replace("*)", "* )").replace("(*", "( *"))


def native_entry(name, body):
    body = strip_comments(body)
    stop = re.search(r"#define\s+HANDLE|\btry\s*\{|gil_release", body)
    region = body[:stop.start()] if stop else body
    params = None
    conds = []
    # locals that merely name a property of an argument are substituted into the atoms
    local = dict(re.findall(r"(?:const\s+)?(?:int|npy_intp)\s+(\w+)\s*=\s*(PyArray_(?:NDIM|DIM|SIZE|TYPE)\([^;()]*\))\s*;", region))
    items = []          # (kind, payload): ("atom", text) | ("nested", outer_cond_text, [inner atom texts])

    def subst(a):
        for k, v in local.items():
            a = re.sub(r"\b%s\b" % k, v, a)
        return a

    def direct_reject(block):
        """does the block itself (outside nested ifs) return NULL / goto exit?"""
        inner = block[1:-1] if block.startswith("{") else block
        flat, depth = "", 0
        for ch in inner:
            if ch == "{":
                depth += 1
            elif ch == "}":
                depth -= 1
            elif depth == 0:
                flat += ch
        flat = re.sub(r"if\s*\([^;]*?\)\s*[^;{]*;", "", flat)       # single-statement nested ifs
        return re.search(r"return\s+(NULL|0)\s*;|goto\s+exit", flat) is not None

    for al, tgt in re.findall(r"PyArrayObject\s*\*\s*(\w+)\s*=\s*\(PyArrayObject\s*\*\)\s*\(?\s*(\w+)\s*\)?\s*;", region):
        local[al] = tgt
    for cond, block, after_else in top_level_ifs(region):
        if after_else:
            continue
        if re.search(r"return\s+(NULL|0)\s*;|goto\s+exit", block) is None:
            continue
        if direct_reject(block):
            for a in split_top(cond):
                a = subst(a)
                if "PyArg_ParseTuple" in a:
                    p = parse_args(a)
                    if p is None:
                        raise TranslateError("cannot read the argument list of " + name)
                    params = p
                else:
                    items.append(("atom", a))
        else:
            inner = []
            body_in = block[1:-1] if block.startswith("{") else block
            for c2, b2, e2 in top_level_ifs(body_in):
                if not e2 and direct_reject(b2):
                    inner += [subst(a) for a in split_top(c2)]
            if inner:
                items.append(("nested", subst(" ".join(cond.split())), inner))
    if params is None:
        raise TranslateError("no PyArg_ParseTuple in " + name)
    tr = AtomTr(params)
    exprs = []
    for it in items:
        if it[0] == "atom":
            exprs.append(tr.atom(it[1]))
        else:
            exprs.append("(%s && (%s))" % (tr.atom(it[1]), " || ".join(tr.atom(a) for a in it[2])))
    binder = " ".join("(%s : %s)" % (("a_" if f == "O" else "z_") + n, "desc" if f == "O" else "Z") for n, f in params)
    rhs = "\n    || ".join(exprs) if exprs else "false"
    return "Definition rejects_%s %s (unk : nat -> bool) : bool :=\n       %s.\n" % (name, binder, rhs), len(exprs), tr.unk


def py_raises(repo):
    rows = []
    for mod in PYMODS:
        path = os.path.join(repo, "mahotas", mod + ".py")
        tree = ast.parse(open(path).read())
        for fn in tree.body:
            if not isinstance(fn, ast.FunctionDef):
                continue
            tests = []
            for node in ast.walk(fn):
                if isinstance(node, ast.If) and any(isinstance(s, ast.Raise) for s in node.body):
                    tests.append("if " + ast.unparse(node.test))
                elif isinstance(node, ast.Call):
                    f = ast.unparse(node.func)
                    if re.match(r"(internal\.)?_(check|verify|get_output|as_floating|make_binary|checked_mode2int|check_mode)", f) or f in ("get_structuring_elem", "_get_axis"):
                        tests.append("call " + f.split(".")[-1] + "(" + ", ".join(ast.unparse(a) for a in node.args[:1]) + ")")
            rows.append((mod.replace("/", ".") + "." + fn.name, sorted(set(tests))))
    return rows


def cstr(s):
    return '"' + s.replace('"', '""') + '"'


def generate(repo):
    out = ["(* GENERATED by tools/translate/gen_guards.py from the py_* entry points of /repo/mahotas/*.cpp and the raise sites of\n"
           "   /repo/mahotas/*.py -- do not edit. *)\n",
           "Require Import ZArith List Bool String.\nRequire Import MV.Base.Desc.\nImport ListNotations.\nOpen Scope Z_scope.\n\n"]
    status = {}
    for mod in MODULES:
        path = os.path.join(repo, "mahotas", mod + ".cpp")
        try:
            src = open(path).read()
        except OSError as e:
            status["guards:" + mod] = "FAILED: %s" % e
            continue
        for m in re.finditer(r"PyObject\s*\*\s*(py_\w+)\s*\(PyObject\s*\*\s*self,\s*PyObject\s*\*\s*args\)\s*\{", src):
            name = m.group(1)
            try:
                end = balanced(src, m.end() - 1, "{", "}")
                text, natoms, nunk = native_entry(name, src[m.end():end - 1])
                out.append("(* %s.cpp *)\n" % mod + text + "\n")
                status["guards:" + name] = "ok"
            except (TranslateError, ValueError) as e:
                out.append("(* TRANSLATION FAILED for %s: %s *)\n\n" % (name, str(e).replace("*)", "* )")))
                status["guards:" + name] = "FAILED: %s" % e
    try:
        rows = py_raises(repo)
        out.append("Open Scope string_scope.\nDefinition py_raises : list (string * list string) :=\n  [ ")
        out.append("\n  ; ".join("(%s, [%s])" % (cstr(n), "; ".join(cstr(t) for t in ts)) for n, ts in rows))
        out.append(" ].\n")
        status["guards:py_raises"] = "ok"
    except (OSError, SyntaxError) as e:
        out.append("(* TRANSLATION FAILED for py_raises: %s *)\n" % e)
        status["guards:py_raises"] = "FAILED: %s" % e
    return "".join(out), status


if __name__ == "__main__":
    import sys
    t, st = generate(sys.argv[1] if len(sys.argv) > 1 else "/repo")
    sys.stdout.write(t)
    for k, v in st.items():
        sys.stderr.write("%s %s\n" % (k, v))
