#!/bin/bash
# usage: confirm_seed.sh <PID> <k> <name>   confirms /tmp/mut/<PID>/patch<k>.diff + demo<k>.py in a scratch worktree and stores it under /verif/seeded/<PID>-<name>/
PID=$1; K=$2; NAME=$3
PROP=${PID%[a-z]}   # round suffix (C16c) is not part of the property id
W=/tmp/cs/$PID-$K
rm -rf $W; mkdir -p /tmp/cs
git -C /repo worktree prune
git -C /repo worktree add -f --detach $W HEAD >/dev/null 2>&1 || { echo "worktree failed"; exit 2; }
cd $W
git apply /tmp/mut/$PID/patch$K.diff || { echo "APPLY-FAILED $PID $K"; git -C /repo worktree remove --force $W; exit 3; }
/venv/bin/python setup.py -q build_ext --inplace -j8 >/dev/null 2>&1
SUITE=$(PYTHONPATH=$W /venv/bin/python -m pytest -q -p no:cacheprovider --timeout=900 mahotas/tests 2>&1 | tail -1)
cp /tmp/mut/$PID/demo$K.py $W/_demo.py
sed -i "s#/tmp/wt/$PID#$W#g" $W/_demo.py
PYTHONPATH=$W timeout 600 /venv/bin/python _demo.py >/tmp/cs/$PID-$K.with.log 2>&1; RC_WITH=$?
git checkout -- . ; /venv/bin/python setup.py -q build_ext --inplace --force -j8 >/dev/null 2>&1
PYTHONPATH=$W timeout 600 /venv/bin/python _demo.py >/tmp/cs/$PID-$K.without.log 2>&1; RC_WITHOUT=$?
cd /verif
git -C /repo worktree remove --force $W
echo "$PID-$K suite=[$SUITE] demo_with=$RC_WITH demo_without=$RC_WITHOUT"
if [ $RC_WITH -ne 0 ] && [ $RC_WITHOUT -eq 0 ] && echo "$SUITE" | grep -q "298 passed"; then
  D=/verif/seeded/$PROP-$NAME; mkdir -p $D
  cp /tmp/mut/$PID/patch$K.diff $D/patch.diff; cp /tmp/mut/$PID/demo$K.py $D/demo.py; cp /tmp/mut/$PID/notes$K.md $D/notes.md 2>/dev/null
  python3 - <<PY
import json
json.dump({"property":"$PROP","origin":"independent sub-agent given only the property text and a scratch worktree",
 "needs":open("/tmp/mut/$PID/notes$K.md").read()[:1500],
 "confirmed":{"suite_with_change":"$SUITE","demo_exit_with_change":$RC_WITH,"demo_exit_without_change":$RC_WITHOUT,
  "how":"tools/confirm_seed.sh: fresh worktree of /repo HEAD under /tmp/cs, git apply, build_ext --inplace, full pytest, demo; revert, rebuild, demo"},
 "detected_by":"(filled in by tools/seedtest.sh runs; see DESIGN.md seeded table)"},open("$D/meta.json","w"),indent=1)
PY
  echo "STORED $D"
else echo "NOT-CONFIRMED $PID $K"; fi
