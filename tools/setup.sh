#!/bin/bash
# MANIFEST.setup_cmd: builds everything the checks need from files on disk (offline).
set -u
cd "$(dirname "$0")/.." || exit 2
mkdir -p .cache evidence replays
rm -f coq/Makefile coq/Makefile.conf
tools/build_model.sh > .cache/setup_coq.log 2>&1
rc=$?
tail -3 .cache/setup_coq.log
if [ $rc -ne 0 ]; then echo "setup: Coq build failed (see .cache/setup_coq.log)"; exit 1; fi
[ -x ocaml/modeldrv ] || { echo "setup: model driver missing"; exit 1; }
/venv/bin/python tools/vlib/build.py || exit 1
echo "setup ok"
