(* Line-oriented driver around the extracted Coq models.
   Input:  one request per line:  <command> <integers...>
   Arrays are encoded as:  ndim d1 .. dn v1 .. vN   (C order).
   Element types: b u8 i8 u16 i16 u32 i32 u64 i64.
   Output: one line per request: "OK v1 v2 ..." or "ERR <text>". *)
open Model

let z_ten = Zpos (XO (XI (XO XH)))
let rec pos_of_int n =
  if n = 1 then XH else if n land 1 = 0 then XO (pos_of_int (n lsr 1)) else XI (pos_of_int (n lsr 1))
let z_of_int n = if n = 0 then Z0 else if n > 0 then Zpos (pos_of_int n) else Zneg (pos_of_int (-n))

let z_of_string s =
  let neg = String.length s > 0 && s.[0] = '-' in
  let start = if neg then 1 else 0 in
  if String.length s - start <= 17 then z_of_int (int_of_string s)
  else begin
    let acc = ref Z0 in
    for i = start to String.length s - 1 do
      let d = Char.code s.[i] - 48 in
      if d < 0 || d > 9 then failwith ("bad integer " ^ s);
      acc := Z.add (Z.mul !acc z_ten) (z_of_int d)
    done;
    if neg then Z.opp !acc else !acc
  end

let rec int_of_pos = function XH -> 1 | XO p -> 2 * int_of_pos p | XI p -> 2 * int_of_pos p + 1
let rec pos_bits = function XH -> 1 | XO p -> 1 + pos_bits p | XI p -> 1 + pos_bits p

let rec string_of_posz z =
  (* z >= 0 *)
  match z with
  | Z0 -> ""
  | Zpos p when pos_bits p <= 60 -> string_of_int (int_of_pos p)
  | _ ->
    let (q, r) = Z.quotrem z z_ten in
    let d = (match r with Z0 -> 0 | Zpos p -> int_of_pos p | Zneg _ -> failwith "neg rem") in
    string_of_posz q ^ string_of_int d

let string_of_z z =
  match z with
  | Z0 -> "0"
  | Zpos _ -> string_of_posz z
  | Zneg p -> "-" ^ string_of_posz (Zpos p)

(* token reader *)
type rd = { toks : string array; mutable i : int }
let next r = if r.i >= Array.length r.toks then failwith "too few tokens" else (let t = r.toks.(r.i) in r.i <- r.i + 1; t)
let next_z r = z_of_string (next r)
let next_int r = int_of_string (next r)
let rec next_n r n = if n = 0 then [] else let x = next_z r in x :: next_n r (n - 1)
let next_list r = let n = next_int r in next_n r n
(* rational: numerator denominator(>0) *)
let next_q r = let n = next_z r in let d = next_z r in
  { qnum = n; qden = (match d with Zpos p -> p | _ -> failwith "bad denominator") }

let next_arr r =
  let nd = next_int r in
  let dims = List.init nd (fun _ -> next_int r) in
  let n = List.fold_left ( * ) 1 dims in
  let data = next_n r n in
  { shape = List.map z_of_int dims; data = data }

let ity_of b s = { bits = z_of_int b; signed = s }
let next_ity r =
  match next r with
  | "u8" -> ity_of 8 false | "i8" -> ity_of 8 true
  | "u16" -> ity_of 16 false | "i16" -> ity_of 16 true
  | "u32" -> ity_of 32 false | "i32" -> ity_of 32 true
  | "u64" -> ity_of 64 false | "i64" -> ity_of 64 true
  | "b" -> ity_of 1 false
  | t -> failwith ("bad type " ^ t)
let next_dt r =
  let save = r.i in
  match next r with
  | "b" -> DBool
  | _ -> r.i <- save; DInt (next_ity r)

let out_list l = "OK " ^ String.concat " " (List.map string_of_z l)
let out_bool b = if b then "OK 1" else "OK 0"
let zb b = if b then z_of_int 1 else Z0
let out_lists ls = "OK " ^ String.concat " | " (List.map (fun l -> String.concat " " (List.map string_of_z l)) ls)
let out_opt f = function Some x -> f x | None -> "ERR model-none"

let dispatch cmd r =
  match cmd with
  | "fix_offset" -> let m = next_z r in let cc = next_z r in let len = next_z r in out_list [fix_offset m cc len]
  | "border_map" -> let m = next_z r in let cc = next_z r in let len = next_z r in
      (match border_map m cc len with Some c -> out_list [c] | None -> "OK none")
  | "erode_sub" -> let t = next_ity r in let a = next_z r in let b = next_z r in out_list [erode_sub t a b]
  | "dilate_add" -> let t = next_ity r in let a = next_z r in let b = next_z r in out_list [dilate_add t a b]
  | "subm" -> let t = next_ity r in let a = next_z r in let b = next_z r in out_list [subm t a b]
  | "erode" -> let d = next_dt r in let f = next_arr r in let bc = next_arr r in out_list (erode_generic d f bc)
  | "dilate" -> let d = next_dt r in let f = next_arr r in let bc = next_arr r in out_list (dilate_generic d f bc)
  | "erode_spec" -> let d = next_dt r in let f = next_arr r in let bc = next_arr r in out_list (erode_spec_all d f bc)
  | "dilate_spec" -> let d = next_dt r in let f = next_arr r in let bc = next_arr r in
      (* second list: 1 where the neighbourhood of the pixel lies inside the image *)
      out_lists [dilate_spec_all d f bc; List.map (fun p -> zb (nbh_inside d f bc p)) (all_positions f.shape)]
  | "open" -> let d = next_dt r in let f = next_arr r in let bc = next_arr r in out_list (mh_open d f bc)
  | "close" -> let d = next_dt r in let f = next_arr r in let bc = next_arr r in out_list (mh_close d f bc)
  | "tophat_open" -> let d = next_dt r in let f = next_arr r in let bc = next_arr r in out_list (mh_tophat_open d f bc)
  | "tophat_close" -> let d = next_dt r in let f = next_arr r in let bc = next_arr r in out_list (mh_tophat_close d f bc)
  | "cdilate" -> let d = next_dt r in let f = next_arr r in let g = next_arr r in let bc = next_arr r in
      let n = next_int r in out_list (mh_cdilate d f g.data bc (Z.to_nat (z_of_int n)))
  | "cerode" -> let d = next_dt r in let f = next_arr r in let g = next_arr r in let bc = next_arr r in
      out_list (mh_cerode d f g.data bc)
  | "subm_arr" -> let d = next_dt r in let a = next_arr r in let b = next_arr r in out_list (psubm d a.data b.data)
  | "convolve" -> let m = next_z r in let f = next_arr r in let w = next_arr r in out_list (convolve_generic m f w)
  | "conv_spec" -> let m = next_z r in let f = next_arr r in let w = next_arr r in out_list (conv_spec_all m f w)
  | "row_fast" -> let m = next_z r in let row = next_list r in let w = next_list r in let g = next_list r in
      out_list (row_fast m row w g)
  | "row_spec" -> let m = next_z r in let row = next_list r in let w = next_list r in out_list (row_spec m row w)
  | "rank_filter" -> let m = next_z r in let f = next_arr r in let bc = next_arr r in let rank = next_z r in
      let g = next_list r in out_list (rank_filter m f bc rank g)
  | "median_rank" -> let bc = next_arr r in out_list [median_rank bc]
  | "mean_filter" -> let m = next_z r in let f = next_arr r in let bc = next_arr r in
      let l = mean_filter m f bc in out_lists [List.map fst l; List.map snd l]
  | "samples_spec" -> let m = next_z r in let f = next_arr r in let bc = next_arr r in
      out_lists (List.map (fun p -> samples_spec m f bc p) (all_positions f.shape))
  | "template_match" -> let d = next_dt r in let m = next_z r in let f = next_arr r in let t = next_arr r in
      out_list (template_match d m f t)
  | "ssd_spec" -> let m = next_z r in let f = next_arr r in let t = next_arr r in
      out_list (List.map (fun p -> ssd_spec m f t p) (all_positions f.shape))
  | "find2d" -> let f = next_arr r in let t = next_arr r in out_list (find2d f t)
  | "lsum" -> let t = (match next r with "none" -> None | _ -> r.i <- r.i - 1; Some (next_ity r)) in
      let m = next_z r in let a = next_list r in let l = next_list r in out_list (labeled_sum t m a l)
  | "lmax" -> let s = next_z r in let m = next_z r in let a = next_list r in let l = next_list r in out_list (labeled_max s m a l)
  | "lmin" -> let s = next_z r in let m = next_z r in let a = next_list r in let l = next_list r in out_list (labeled_min s m a l)
  | "relabel" -> let l = next_list r in let (o, n) = relabel l in out_lists [o; [n]]
  | "same_labeling" -> let a = next_list r in let b = next_list r in
      out_list [zb (is_same_labeling a b); zb (same_labeling_spec a b)]
  | "remove_regions" -> let l = next_list r in let g = next_list r in out_list (remove_regions l g)
  | "borders" -> let m = next_z r in let f = next_arr r in let bc = next_arr r in
      out_lists [borders m f bc; List.map (fun p -> zb (borders_spec m f bc p)) (all_positions f.shape)]
  | "border" -> let f = next_arr r in let bc = next_arr r in let i = next_z r in let j = next_z r in out_list (border f bc i j)
  | "bbox" -> let f = next_arr r in
      out_lists [bbox_generic f; (if List.length f.shape = 2 then bbox_fast2 f else bbox_generic f); bbox_spec f]
  | "bbox_labeled" -> let f = next_arr r in let n = next_z r in out_lists (bbox_labeled_spec f n)
  | "bbox_labeled_model" -> let f = next_arr r in let n = next_z r in out_lists (bbox_labeled f n)
  | "hist" -> let l = next_list r in out_list (fullhistogram l)
  | "com" -> let f = next_arr r in let lab = next_list r in let l = next_z r in
      let (t, s) = com_sums f lab l in out_lists [[t]; s]
  | "label" -> let f = next_arr r in let bc = next_arr r in let (o, n) = label f bc in out_lists [o; [n]]
  | "uf_label" -> let f = next_arr r in let bc = next_arr r in let (o, n) = uf_label f bc in out_lists [o; [n]]
  | "locmm" -> let ismin = next_int r = 1 in let f = next_arr r in let bc = next_arr r in
      out_lists [locmm ismin f bc; List.map (fun p -> zb (locmm_spec ismin f bc p)) (all_positions f.shape)]
  | "regmm" -> let ismin = next_int r = 1 in let f = next_arr r in let bc = next_arr r in
      out_lists [regmm ismin f bc; regmm_spec ismin f bc]
  | "close_holes" -> let f = next_arr r in let bc = next_arr r in out_lists [close_holes f bc; close_holes_spec f bc]
  | "hitmiss" -> let f = next_arr r in let t = next_arr r in out_lists [hitmiss f t; hitmiss_spec f t]
  | "cwatershed" -> let wl = next_int r = 1 in let s = next_arr r in let m = next_arr r in let bc = next_arr r in
      let (a, b) = cwatershed s m bc wl in let (c, d) = flood_spec s m bc wl in out_lists [a; b; c; d]
  | "distance" -> let a = next_arr r in out_lists [distance a; distance_spec a]
  | "gvoronoi" -> let a = next_arr r in out_list (gvoronoi a)
  | "dt1d" -> let f = next_list r in out_lists [dt1d f; minplus1d f]
  | "otsu" -> let h = next_list r in out_list [otsu h; otsu_spec h]
  | "rc" -> let h = next_list r in let q = qred (rc h) in out_list [q.qnum; Zpos q.qden]
  | "gbernsen_px" -> let a = next_q r in let b = next_q r in let c = next_q r in let d = next_q r in let e = next_q r in
      out_bool (gbernsen_px a b c d e)
  | "soft_px" -> let f = next_q r in let t = next_q r in let q = qred (soft_threshold_px f t) in out_list [q.qnum; Zpos q.qden]
  | "thin" -> let f = next_arr r in out_list (thin f)
  | "euler" -> let n8 = next_int r = 1 in let f = next_arr r in out_list [euler_x4 n8 f]
  | "convexhull" -> let f = next_arr r in out_list (List.concat_map (fun (y, x) -> [y; x]) (convexhull f))
  | "haar2d" | "ihaar2d" -> let f = next_arr r in
      let (h, w) = (match f.shape with [a; b] -> (a, b) | _ -> failwith "2-D expected") in
      let wn = Z.to_nat w and hn = Z.to_nat h in
      let rec rows l = (match l with [] -> [] | _ -> let rec take n l = if n = 0 then ([], l) else (match l with x :: t -> let (a, b) = take (n - 1) t in (x :: a, b) | [] -> ([], [])) in
                         let (a, b) = take (int_of_string (string_of_z w)) l in a :: rows b) in
      let res = (if cmd = "haar2d" then haar2d wn hn (rows f.data) else ihaar2d wn hn (rows f.data)) in
      out_list (List.concat res)
  | "wavelet_row" | "iwavelet_row" -> let code = next_int r in let n = next_int r in
      let l = List.init n (fun _ -> next_q r) in
      let c = List.nth daubechies_tables code in
      let res = (if cmd = "wavelet_row" then wavelet_row c l else iwavelet_row c l) in
      out_list (List.concat_map (fun q -> let q = qred q in [q.qnum; Zpos q.qden]) res)
  | "center_geom" -> let b = next_z r in let dims = next_list r in
      (match center_geom dims b with Some g -> out_list (List.concat_map (fun (ns, d) -> [ns; d]) g) | None -> "OK none")
  | "shift1" -> let order = next_z r in let mode = next_z r in let s = next_q r in let n = next_int r in
      let l = List.init n (fun _ -> next_q r) in
      out_list (List.concat_map (fun q -> let q = qred q in [q.qnum; Zpos q.qden]) (shift1 order mode l s))
  | "zoom1" -> let order = next_z r in let mode = next_z r in let nout = next_z r in let n = next_int r in
      let l = List.init n (fun _ -> next_q r) in
      out_list (List.concat_map (fun q -> let q = qred q in [q.qnum; Zpos q.qden]) (zoom1 order mode l nout))
  | "spline_weights" -> let order = next_z r in let x = next_q r in
      out_list (List.concat_map (fun q -> let q = qred q in [q.qnum; Zpos q.qden]) (spline_weights order x))
  | "cooc" -> let sym = next_int r = 1 in let m = next_z r in let f = next_arr r in let delta = next_list r in
      out_list (if sym then cooc_sym f delta m else cooc f delta m)
  | "lbp_map" -> let p = next_z r in let l = next_list r in out_list (List.map (fun v -> lbp_map v p) l)
  | "integral" -> let f = next_arr r in
      let w = (match f.shape with [_; b] -> int_of_string (string_of_z b) | _ -> failwith "2-D expected") in
      let rec rows l = (match l with [] -> [] | _ ->
          let rec take n l = if n = 0 then ([], l) else (match l with x :: t -> let (a, b) = take (n - 1) t in (x :: a, b) | [] -> ([], [])) in
          let (a, b) = take w l in a :: rows b) in
      out_list (List.concat (integral (rows f.data)))
  | "moments" -> let f = next_arr r in let p0 = next_z r in let p1 = next_z r in let c0 = next_z r in let c1 = next_z r in
      out_list [moments f p0 p1 c0 c1]
  | _ -> failwith ("unknown command " ^ cmd)

let () =
  try
    while true do
      let line = input_line stdin in
      let toks = Array.of_list (List.filter (fun s -> s <> "") (String.split_on_char ' ' (String.trim line))) in
      if Array.length toks = 0 then print_endline "ERR empty"
      else begin
        let r = { toks; i = 1 } in
        (try print_endline (dispatch toks.(0) r)
         with Failure m -> print_endline ("ERR " ^ m) | Not_found -> print_endline "ERR not_found"
            | Stack_overflow -> print_endline "ERR stack_overflow" | Invalid_argument m -> print_endline ("ERR " ^ m))
      end
    done
  with End_of_file -> ()
